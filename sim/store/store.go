//go:build verif

// Package store is the simulated ledger behind interpreter.Store: a private
// truth, a plan that decides call by call how a legal store answers (shape,
// aliasing) and where it fails, and a log of the whole conversation.
package store

import (
	"context"
	"errors"
	"fmt"
	"math/big"
	"sort"
	"strings"
	"time"

	"github.com/formancehq/numscript/internal/interpreter"
	"github.com/formancehq/numscript/internal/verifsim/core"
	"github.com/formancehq/numscript/internal/verifsim/gen"
)

const (
	ModeExact    = "exact"
	ModeSparse   = "sparse"
	ModeSuperset = "superset"
	ModeRandSup  = "random-superset"
	ModeUnion    = "union"
	ModeStatic   = "static"
)

var AllModes = []string{ModeExact, ModeSparse, ModeSuperset, ModeRandSup, ModeUnion, ModeStatic}

const (
	FaultError    = "error"
	FaultCancel   = "ctx-cancelled"
	FaultDeadline = "deadline-exceeded"
)

var FaultKinds = []string{FaultError, FaultCancel, FaultDeadline}

type Fault struct {
	Call int    `json:"call"` // 1-based index over all store calls of one run (balances and metadata)
	Kind string `json:"kind"`
	Msg  string `json:"msg,omitempty"`
}

type Plan struct {
	Mode     string  `json:"mode"`
	Shared   bool    `json:"shared,omitempty"` // hand out the store's own inner maps and *big.Int
	MetaMode string  `json:"meta_mode,omitempty"`
	Seed     uint64  `json:"seed,omitempty"` // per-call sub-choices (sparse sub-mode, random superset)
	Faults   []Fault `json:"faults,omitempty"`
}

type Call struct {
	N      int
	Kind   string // balances | meta
	Query  string // canonical, sorted
	Answer string // canonical
	Err    string
}

type handed struct {
	live interpreter.Balances
	snap string
}
type handedMeta struct {
	live interpreter.AccountsMetadata
	snap string
}

type SimStore struct {
	plan       Plan
	truth      interpreter.Balances // owned; handed out as is in shared mode
	truthSnap  string
	meta       interpreter.AccountsMetadata
	metaSnap   string
	static     interpreter.StaticStore
	n          int
	requested  map[string]map[string]bool
	Log        []Call
	handed     []handed
	handedM    []handedMeta
	Cancel     context.CancelFunc                     // set by the harness when the context is cancellable
	Yield      func(site string)                      // cooperative scheduler hook (C11); nil elsewhere
	Nested     func(ctx context.Context, site string) // re-entrant use (C11): the store itself runs a script, with the context it was handed, before it answers
	Fired      map[string]int
	WorldAsked bool
}

func ParseBalances(in map[string]map[string]string) interpreter.Balances {
	out := interpreter.Balances{}
	for _, a := range core.SortedKeys(in) {
		m := interpreter.AccountBalance{}
		for _, as := range core.SortedKeys(in[a]) {
			v, ok := new(big.Int).SetString(in[a][as], 10)
			if !ok {
				panic("bad balance in case: " + in[a][as])
			}
			m[as] = v
		}
		out[a] = m
	}
	return out
}

func CopyMeta(in map[string]map[string]string) interpreter.AccountsMetadata {
	out := interpreter.AccountsMetadata{}
	for _, a := range core.SortedKeys(in) {
		m := interpreter.AccountMetadata{}
		for _, k := range core.SortedKeys(in[a]) {
			m[k] = in[a][k]
		}
		out[a] = m
	}
	return out
}

func New(in gen.Inputs, plan Plan) *SimStore {
	s := &SimStore{plan: plan, requested: map[string]map[string]bool{}, Fired: map[string]int{}}
	s.truth = ParseBalances(in.Balances)
	s.meta = CopyMeta(in.Meta)
	s.truthSnap = CanonBalances(s.truth)
	s.metaSnap = CanonMeta(s.meta)
	s.static = interpreter.StaticStore{Balances: s.truth, Meta: s.meta}
	if s.plan.MetaMode == "" {
		s.plan.MetaMode = "exact"
	}
	return s
}

func CanonBalances(b interpreter.Balances) string {
	if b == nil {
		return "<nil>"
	}
	var sb strings.Builder
	for _, a := range core.SortedKeys(b) {
		sb.WriteString(a)
		sb.WriteString("{")
		m := b[a]
		if m == nil {
			sb.WriteString("<nil>")
		}
		for _, as := range core.SortedKeys(m) {
			if m[as] == nil {
				fmt.Fprintf(&sb, "%s=<nil>;", as)
			} else {
				fmt.Fprintf(&sb, "%s=%s;", as, safeText(m[as]))
			}
		}
		sb.WriteString("}")
	}
	return sb.String()
}

func CanonMeta(b interpreter.AccountsMetadata) string {
	if b == nil {
		return "<nil>"
	}
	var sb strings.Builder
	for _, a := range core.SortedKeys(b) {
		sb.WriteString(a)
		sb.WriteString("{")
		for _, k := range core.SortedKeys(b[a]) {
			fmt.Fprintf(&sb, "%q=%q;", k, b[a][k])
		}
		sb.WriteString("}")
	}
	return sb.String()
}

func canonQuery(q map[string][]string) string {
	var sb strings.Builder
	for _, a := range core.SortedKeys(q) {
		xs := append([]string(nil), q[a]...)
		sort.Strings(xs)
		fmt.Fprintf(&sb, "%s[%s]", a, strings.Join(xs, ","))
	}
	return sb.String()
}

// sub derives a per-call sub-choice from the plan seed and the query alone, so
// that an answer is a function of (plan, query) and not of the order in which
// concurrent runs reach a shared store.
func (s *SimStore) sub(query string, i uint64) uint64 {
	return core.Derive(s.plan.Seed, query, i)
}

func (s *SimStore) fault() (Fault, bool) {
	for _, f := range s.plan.Faults {
		if f.Call == s.n {
			return f, true
		}
	}
	return Fault{}, false
}

// WrapsInterpreterError prefixes the message of a store error that wraps (%w) a typed execution error.
const WrapsInterpreterError = "settlement ledger could not refresh: "

func (s *SimStore) fail(ctx context.Context, f Fault) error {
	s.Fired[f.Kind]++
	switch f.Kind {
	case FaultCancel:
		if s.Cancel != nil {
			s.Cancel()
		}
		if err := ctx.Err(); err != nil {
			return err
		}
		return context.Canceled
	case FaultDeadline:
		return context.DeadlineExceeded
	default:
		if strings.HasPrefix(f.Msg, WrapsInterpreterError) {
			// a store layered on another numscript run: its error wraps that run's typed error.
			// It is still the STORE that failed, and its message is what must come back.
			return fmt.Errorf("%s: %w", f.Msg, interpreter.MissingFundsErr{Asset: "ZZZ", Needed: *big.NewInt(500), Available: *big.NewInt(1)})
		}
		return errors.New(f.Msg)
	}
}

func (s *SimStore) val(acc, asset string) *big.Int {
	if m, ok := s.truth[acc]; ok {
		if v, ok := m[asset]; ok {
			if s.plan.Shared {
				return v
			}
			return new(big.Int).Set(v)
		}
	}
	return big.NewInt(0)
}

func (s *SimStore) has(acc, asset string) bool {
	if m, ok := s.truth[acc]; ok {
		if v, ok := m[asset]; ok {
			return v.Sign() != 0
		}
	}
	return false
}

func (s *SimStore) addExact(out interpreter.Balances, q interpreter.BalanceQuery, sparse bool, emptyMaps bool) {
	for _, a := range core.SortedKeys(q) {
		m, exists := out[a]
		if !exists {
			m = interpreter.AccountBalance{}
		}
		for _, as := range q[a] {
			if sparse && !s.has(a, as) {
				continue
			}
			m[as] = s.val(a, as)
		}
		if len(m) > 0 || !sparse || emptyMaps {
			out[a] = m
		}
	}
}

func (s *SimStore) whole() interpreter.Balances {
	if s.plan.Shared {
		return s.truth
	}
	out := interpreter.Balances{}
	for _, a := range core.SortedKeys(s.truth) {
		m := interpreter.AccountBalance{}
		for _, as := range core.SortedKeys(s.truth[a]) {
			m[as] = new(big.Int).Set(s.truth[a][as])
		}
		out[a] = m
	}
	return out
}

func (s *SimStore) GetBalances(ctx context.Context, q interpreter.BalanceQuery) (interpreter.Balances, error) {
	s.n++
	if s.Yield != nil {
		s.Yield("store.GetBalances")
	}
	if s.Nested != nil {
		s.Nested(ctx, "store.GetBalances")
	}
	call := Call{N: s.n, Kind: "balances", Query: canonQuery(q)}
	if _, ok := q["world"]; ok {
		s.WorldAsked = true
	}
	for _, a := range core.SortedKeys(q) {
		if s.requested[a] == nil {
			s.requested[a] = map[string]bool{}
		}
		for _, as := range q[a] {
			s.requested[a][as] = true
		}
	}
	if f, ok := s.fault(); ok {
		err := s.fail(ctx, f)
		call.Err = err.Error()
		s.Log = append(s.Log, call)
		return nil, err
	}
	var out interpreter.Balances
	switch s.plan.Mode {
	case ModeStatic:
		out, _ = s.static.GetBalances(ctx, q)
	case ModeSuperset:
		out = s.whole()
	case ModeSparse:
		out = interpreter.Balances{}
		s.addExact(out, q, true, s.sub(call.Query, 0)%2 == 0)
	case ModeUnion:
		out = interpreter.Balances{}
		u := interpreter.BalanceQuery{}
		for _, a := range core.SortedKeys(s.requested) {
			u[a] = core.SortedKeys(s.requested[a])
		}
		s.addExact(out, u, false, false)
	case ModeRandSup:
		out = interpreter.Balances{}
		s.addExact(out, q, s.sub(call.Query, 1)%2 == 0, s.sub(call.Query, 2)%2 == 0)
		extra := uint64(3)
		for _, a := range core.SortedKeys(s.truth) {
			for _, as := range core.SortedKeys(s.truth[a]) {
				extra++
				if s.sub(call.Query, extra)%3 == 0 {
					if out[a] == nil {
						out[a] = interpreter.AccountBalance{}
					}
					out[a][as] = s.val(a, as)
				}
			}
		}
	default: // exact
		out = interpreter.Balances{}
		s.addExact(out, q, false, false)
	}
	call.Answer = CanonBalances(out)
	s.Log = append(s.Log, call)
	s.handed = append(s.handed, handed{live: out, snap: call.Answer})
	return out, nil
}

func (s *SimStore) GetAccountsMetadata(ctx context.Context, q interpreter.MetadataQuery) (interpreter.AccountsMetadata, error) {
	s.n++
	if s.Yield != nil {
		s.Yield("store.GetAccountsMetadata")
	}
	if s.Nested != nil {
		s.Nested(ctx, "store.GetAccountsMetadata")
	}
	call := Call{N: s.n, Kind: "meta", Query: canonQuery(q)}
	if f, ok := s.fault(); ok {
		err := s.fail(ctx, f)
		call.Err = err.Error()
		s.Log = append(s.Log, call)
		return nil, err
	}
	var out interpreter.AccountsMetadata
	mode := s.plan.MetaMode
	if s.plan.Mode == ModeStatic {
		mode = "static"
	}
	switch mode {
	case "static":
		out, _ = s.static.GetAccountsMetadata(ctx, q)
	case "all":
		if s.plan.Shared {
			out = s.meta
		} else {
			out = interpreter.AccountsMetadata{}
			for _, a := range core.SortedKeys(s.meta) {
				m := interpreter.AccountMetadata{}
				for _, k := range core.SortedKeys(s.meta[a]) {
					m[k] = s.meta[a][k]
				}
				out[a] = m
			}
		}
	case "account":
		out = interpreter.AccountsMetadata{}
		for _, a := range core.SortedKeys(q) {
			if src, ok := s.meta[a]; ok {
				if s.plan.Shared {
					out[a] = src
				} else {
					m := interpreter.AccountMetadata{}
					for _, k := range core.SortedKeys(src) {
						m[k] = src[k]
					}
					out[a] = m
				}
			}
		}
	default:
		out = interpreter.AccountsMetadata{}
		for _, a := range core.SortedKeys(q) {
			m := interpreter.AccountMetadata{}
			for _, k := range q[a] {
				if v, ok := s.meta[a][k]; ok {
					m[k] = v
				}
			}
			if len(m) > 0 || s.sub(call.Query, 9)%2 == 0 {
				out[a] = m
			}
		}
	}
	call.Answer = CanonMeta(out)
	s.Log = append(s.Log, call)
	s.handedM = append(s.handedM, handedMeta{live: out, snap: call.Answer})
	return out, nil
}

func (s *SimStore) Calls() int { return s.n }

// Mutations reports every store-owned or handed-out map that no longer has
// the content it had when the store created / returned it.
func (s *SimStore) Mutations() []string {
	var out []string
	if got := CanonBalances(s.truth); got != s.truthSnap {
		out = append(out, fmt.Sprintf("store-owned balances changed: %s -> %s", s.truthSnap, got))
	}
	if got := CanonMeta(s.meta); got != s.metaSnap {
		out = append(out, fmt.Sprintf("store-owned metadata changed: %s -> %s", s.metaSnap, got))
	}
	for i, h := range s.handed {
		if got := CanonBalances(h.live); got != h.snap {
			out = append(out, fmt.Sprintf("balances answer #%d modified after it was returned: %s -> %s", i+1, h.snap, got))
		}
	}
	for i, h := range s.handedM {
		if got := CanonMeta(h.live); got != h.snap {
			out = append(out, fmt.Sprintf("metadata answer #%d modified after it was returned: %s -> %s", i+1, h.snap, got))
		}
	}
	return out
}

// LogShape is a canonical rendering of the conversation.
func (s *SimStore) LogLines() []string {
	var out []string
	for _, c := range s.Log {
		if c.Err != "" {
			out = append(out, fmt.Sprintf("store#%d %s %s -> ERROR %q", c.N, c.Kind, c.Query, c.Err))
		} else {
			out = append(out, fmt.Sprintf("store#%d %s %s -> %s", c.N, c.Kind, c.Query, c.Answer))
		}
	}
	return out
}

func (s *SimStore) ShapeKey() string {
	var sb strings.Builder
	for _, c := range s.Log {
		fmt.Fprintf(&sb, "%s:%s|", c.Kind, c.Query)
	}
	return sb.String()
}

// Frozen is an immutable store for the free-running race mode: no counters,
// no log, nothing written after construction, so any write the race detector
// sees on its maps comes from the code under test.
type Frozen struct {
	truth  interpreter.Balances
	meta   interpreter.AccountsMetadata
	Mode   string // exact | superset
	Shared bool
	Pause  bool // free-running race mode: a ledger takes time to answer, calls of parallel runs overlap
}

func NewFrozen(in gen.Inputs, mode string, shared bool) *Frozen {
	return &Frozen{truth: ParseBalances(in.Balances), meta: CopyMeta(in.Meta), Mode: mode, Shared: shared}
}

func (f *Frozen) GetBalances(ctx context.Context, q interpreter.BalanceQuery) (interpreter.Balances, error) {
	if f.Pause {
		time.Sleep(30 * time.Microsecond)
	}
	if f.Mode == ModeSuperset && f.Shared {
		return f.truth, nil
	}
	out := interpreter.Balances{}
	if f.Mode == ModeSuperset {
		for a, m := range f.truth {
			mm := interpreter.AccountBalance{}
			for as, v := range m {
				mm[as] = new(big.Int).Set(v)
			}
			out[a] = mm
		}
		return out, nil
	}
	for a, assets := range q {
		m := interpreter.AccountBalance{}
		for _, as := range assets {
			if v, ok := f.truth[a][as]; ok {
				if f.Shared {
					m[as] = v
				} else {
					m[as] = new(big.Int).Set(v)
				}
			} else {
				m[as] = big.NewInt(0)
			}
		}
		out[a] = m
	}
	return out, nil
}

func (f *Frozen) GetAccountsMetadata(ctx context.Context, q interpreter.MetadataQuery) (interpreter.AccountsMetadata, error) {
	if f.Shared {
		return f.meta, nil
	}
	out := interpreter.AccountsMetadata{}
	for a := range q {
		m := interpreter.AccountMetadata{}
		for k, v := range f.meta[a] {
			m[k] = v
		}
		out[a] = m
	}
	return out, nil
}

func (f *Frozen) Snapshot() string { return CanonBalances(f.truth) + "|" + CanonMeta(f.meta) }

// safeText renders a number that code under test may have corrupted (a by-value copy of a
// big.Int shares its words with the original: writing through the copy leaves the store's
// own number in a state math/big panics on). The snapshot then differs from the one taken
// before the run - the mutation is reported - instead of taking the harness down.
func safeText(v *big.Int) (s string) {
	defer func() {
		if r := recover(); r != nil {
			s = fmt.Sprintf("<unprintable number: %v>", r)
		}
	}()
	return v.String()
}

