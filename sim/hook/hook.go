// Package hook is the seam the C11 instrumenter routes the interpreter
// through (scratch copies only; /repo never imports it): yield points for the
// cooperative scheduler and the map-iteration-order seam. With nothing
// installed both are transparent.
package hook

import (
	"iter"
	"sort"
)

// YieldFn, when set, is called at every instrumented function entry. The
// scheduler guarantees that only one task goroutine is runnable at a time, so
// plain variables are enough.
var YieldFn func(site string)

// PermFn, when set, permutes a sorted key list in place.
var PermFn func(keys []string)

// Counters (read by the harness for its reach probes).
var Yields, Ranges int64

func Yield(site string) {
	if f := YieldFn; f != nil {
		f(site)
	}
}

func order[V any](m map[string]V) []string {
	keys := make([]string, 0, len(m))
	for k := range m {
		keys = append(keys, k)
	}
	sort.Strings(keys)
	if f := PermFn; f != nil {
		f(keys)
	}
	return keys
}

// RangeStr iterates a snapshot of the keys in the seam's order; entries
// deleted meanwhile are skipped, as the language allows.
func RangeStr[M ~map[string]V, V any](m M) iter.Seq2[string, V] {
	return func(yield func(string, V) bool) {
		for _, k := range order(m) {
			v, ok := m[k]
			if !ok {
				continue
			}
			if !yield(k, v) {
				return
			}
		}
	}
}

// KeysStr replaces golang.org/x/exp/maps.Keys.
func KeysStr[M ~map[string]V, V any](m M) []string {
	return order(m)
}
