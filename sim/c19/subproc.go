//go:build verif

package c19

import (
	"bufio"
	"fmt"
	"io"
	"os/exec"
	"strconv"
	"strings"
	"time"

	"github.com/formancehq/numscript/internal/verifsim/core"
)

// Subprocess tier: the real `numscript lsp` binary over real pipes. The
// client writes frames in the case's fragments, reads frames from stdout,
// drains stderr, kills and restarts the process at the case's kill points.
// Wall-clock time is used only as a watchdog (a stuck read is harness
// trouble or a dead server, never a verdict by itself).

type proc struct {
	cmd   *exec.Cmd
	in    io.WriteCloser
	out   *bufio.Reader
	dead  chan struct{}
	frags []int
	fi    int
	hdr   int
}

func startProc(bin string, frags []int) (*proc, error) {
	cmd := exec.Command(bin, "lsp")
	in, err := cmd.StdinPipe()
	if err != nil {
		return nil, err
	}
	out, err := cmd.StdoutPipe()
	if err != nil {
		return nil, err
	}
	errp, err := cmd.StderrPipe()
	if err != nil {
		return nil, err
	}
	if err := cmd.Start(); err != nil {
		return nil, err
	}
	p := &proc{cmd: cmd, in: in, out: bufio.NewReader(out), dead: make(chan struct{}), frags: frags}
	go io.Copy(io.Discard, errp)
	return p, nil
}

func (p *proc) kill() {
	p.cmd.Process.Kill()
	p.in.Close()
	p.cmd.Wait()
}

func (p *proc) write(b []byte) error {
	for len(b) > 0 {
		n := len(b)
		if len(p.frags) > 0 {
			n = p.frags[p.fi%len(p.frags)]
			p.fi++
			if n > len(b) {
				n = len(b)
			}
		}
		if _, err := p.in.Write(b[:n]); err != nil {
			return err
		}
		b = b[n:]
	}
	return nil
}

type frameOrErr struct {
	body []byte
	err  error
}

// readFrame reads one LSP frame from the server's stdout with a watchdog.
func (p *proc) readFrame() ([]byte, error) {
	ch := make(chan frameOrErr, 1)
	go func() {
		n := -1
		for {
			line, err := p.out.ReadString('\n')
			if err != nil {
				ch <- frameOrErr{nil, err}
				return
			}
			line = strings.TrimRight(line, "\r\n")
			if line == "" {
				break
			}
			if strings.HasPrefix(strings.ToLower(line), "content-length:") {
				n, _ = strconv.Atoi(strings.TrimSpace(line[len("content-length:"):]))
			}
		}
		if n < 0 {
			ch <- frameOrErr{nil, fmt.Errorf("frame without Content-Length")}
			return
		}
		b := make([]byte, n)
		_, err := io.ReadFull(p.out, b)
		ch <- frameOrErr{b, err}
	}()
	select {
	case f := <-ch:
		return f.body, f.err
	case <-time.After(20 * time.Second):
		return nil, fmt.Errorf("watchdog: no frame within 20s")
	}
}

// exchange sends one message and collects the response (and, for updates, the
// notification that precedes it). died=true if the process went away.
func (p *proc) exchange(m Msg, id int) (rep reply, died bool, herr error) {
	if err := p.write(frameStyled(m.body(id), p.hdr+id*boolInt(p.hdr > 0))); err != nil {
		return reply{crashed: true, panicV: "write failed: " + err.Error()}, true, nil
	}
	// Read until the response to this message has arrived; notifications are
	// collected as they come (their order relative to the response is not promised).
	readUntilResponse := func() (bool, error) {
		for k := 0; k < 8; k++ {
			b, err := p.readFrame()
			if err != nil {
				if strings.HasPrefix(err.Error(), "watchdog") {
					return false, err
				}
				rep = reply{crashed: true, panicV: "server process ended: " + err.Error()}
				return true, nil
			}
			v, _ := decode(b).(map[string]any)
			if v == nil {
				return false, fmt.Errorf("undecodable frame %q", core.Truncate(string(b), 100))
			}
			if _, isNotif := v["method"]; isNotif {
				rep.notifs = append(rep.notifs, b)
				continue
			}
			rep.result = v["result"]
			rep.id = fmt.Sprint(v["id"])
			return false, nil
		}
		return false, fmt.Errorf("8 frames without a response")
	}
	died, herr = readUntilResponse()
	if herr != nil || died {
		return rep, died, herr
	}
	if !m.isNotification() && rep.id != fmt.Sprint(id) {
		rep.outErr = fmt.Sprintf("response carries id %s, the request had id %d", rep.id, id)
	}
	if m.isUpdate() && len(rep.notifs) == 0 {
		// No diagnostics yet. The server handles messages one at a time, so once it has
		// answered a follow-up request everything the update published has been written:
		// no timing is involved in deciding that nothing was published.
		saved := rep.result
		if err := p.write(frame(Msg{Kind: "unknown"}.body(900000 + id))); err != nil {
			return reply{crashed: true, panicV: "write failed: " + err.Error()}, true, nil
		}
		died, herr = readUntilResponse()
		rep.result = saved
		if herr != nil || died {
			return rep, died, herr
		}
	}
	return rep, false, nil
}

func freshProc(bin string, uri string, text *string, m *Msg) (open reply, ans reply, herr error) {
	p, err := startProc(bin, nil)
	if err != nil {
		return open, ans, err
	}
	defer p.kill()
	if text != nil {
		var died bool
		open, died, herr = p.exchange(Msg{Kind: "open", URI: uri, Texts: []string{*text}}, 1)
		if herr != nil || died {
			return open, ans, herr
		}
	}
	if m != nil {
		ans, _, herr = p.exchange(*m, 2)
	}
	return open, ans, herr
}

func freshDiagsProc(bin string, herr *string) func(uri, text string) (string, bool) {
	return func(uri, text string) (string, bool) {
		open, _, err := freshProc(bin, uri, &text, nil)
		if err != nil {
			*herr = err.Error()
			return "", false
		}
		if open.crashed {
			return "", false
		}
		for _, p := range publishedDiagnostics(open.notifs) {
			if p.uri == uri {
				return p.diags, true
			}
		}
		return "[]", true
	}
}

func executeSubproc(c Case, keepTrace bool, bin string) Result {
	tr := core.NewTrace(keepTrace)
	res := Result{Trace: tr, Probes: map[string]int{}}
	if bin == "" {
		res.HarnessErr = "subprocess tier needs the numscript binary (-bin)"
		return res
	}
	p, err := startProc(bin, c.Frags)
	if err != nil {
		res.HarnessErr = err.Error()
		return res
	}
	p.hdr = c.Hdr
	defer func() { p.kill() }()
	latest := map[string]string{}
	shown := map[string]string{}
	updates := map[string]int{}
	fd := freshDiagsProc(bin, &res.HarnessErr)
	restart := func(i int) *core.Violation {
		p.kill()
		np, err := startProc(bin, c.Frags)
		if err != nil {
			res.HarnessErr = err.Error()
			return nil
		}
		p = np
		p.hdr = c.Hdr
		for _, u := range core.SortedKeys(latest) {
			text := latest[u]
			r2, died, herr := p.exchange(Msg{Kind: "open", URI: u, Texts: []string{text}}, 1000+i)
			res.Handled++
			if herr != nil {
				res.HarnessErr = herr.Error()
				return nil
			}
			if died {
				return viol("crash-consistency", "crash-on-harmless-text-after-restart", "re-opening "+u+" after a restart kills the new process: "+r2.panicV)
			}
			delete(shown, u)
			if v := checkPublished(r2.notifs, latest, shown, fd); v != nil || res.HarnessErr != "" {
				return v
			}
			if want, ok := fd(u, text); ok && shownOr(shown, u) != want {
				return viol("freshness", "diagnostics-not-refreshed", fmt.Sprintf("after restart and re-open of %s the client shows %s ; a fresh process publishes %s", u, shownOr(shown, u), want))
			}
		}
		return nil
	}
	for i, m := range c.Msgs {
		if m.Kill {
			// crash at an arbitrary instant: possibly in the middle of a frame
			res.Probes["fault/sigkill_and_restart"]++
			if m.Cut > 0 {
				b := frame(m.body(i + 1))
				if m.Cut < len(b) {
					p.write(b[:m.Cut])
					res.Probes["fault/kill_inside_a_frame"]++
				}
			}
			if v := restart(i); v != nil || res.HarnessErr != "" {
				res.Violation = v
				return res
			}
		}
		rep, died, herr := p.exchange(m, i+1)
		res.Handled++
		res.Bytes += len(frame(m.body(i + 1)))
		if herr != nil {
			if strings.HasPrefix(herr.Error(), "watchdog") {
				// the process is alive and silent: the message, or its answer, is lost. Answers take
				// milliseconds; twenty seconds of silence after the last fault is not an answer.
				res.Violation = viol("transport", "request-never-answered", fmt.Sprintf("[real binary] message %d of %d (%s on %s): the server process is alive but sent nothing for 20 s", i+1, len(c.Msgs), m.Kind, m.URI))
				return res
			}
			res.HarnessErr = fmt.Sprintf("message %d (%s): %v", i+1, m.Kind, herr)
			return res
		}
		rep.crashed = died
		tr.Add("msg %d %s %s (%d,%d) -> died=%v result=%s notifs=%s", i+1, m.Kind, m.URI, m.Line, m.Char, died, core.Truncate(answerCanon(m.Kind, rep.result), 300), core.Truncate(notifCanon(rep.notifs), 300))
		if v := checkReplySubID(rep); v != nil {
			v.Detail = fmt.Sprintf("[real binary] message %d of %d: %s", i+1, len(c.Msgs), v.Detail)
			res.Violation = v
			return res
		}
		if v := checkReplySub(bin, m, rep, latest, shown, fd, updates, &res); v != nil || res.HarnessErr != "" {
			if v != nil {
				v.Detail = fmt.Sprintf("[real binary] message %d of %d: %s", i+1, len(c.Msgs), v.Detail)
			}
			res.Violation = v
			return res
		}
		if died {
			res.Probes["fault/server_crash_and_restart"]++
			if v := restart(i); v != nil || res.HarnessErr != "" {
				res.Violation = v
				return res
			}
		}
	}
	if len(c.Burst) > 0 {
		if v := burst(c, p, latest, shown, fd, &res, tr); v != nil || res.HarnessErr != "" {
			if v != nil {
				v.Detail = "[real binary] " + v.Detail
			}
			res.Violation = v
			return res
		}
	}
	if len(c.Frags) > 0 {
		res.Probes["fault/fragmented_stream"]++
	}
	res.Nontrivial = res.Handled >= 3
	return res
}

// burst writes several changes (different documents) and a closing request in ONE write, then
// reads until the closing request is answered. The server handles messages in order, so by
// then everything the changes publish has been written; every changed document must have
// been shown the diagnostics of its new text.
func burst(c Case, p *proc, latest, shown map[string]string, fd func(string, string) (string, bool), res *Result, tr *core.Trace) *core.Violation {
	var buf []byte
	var sent []Msg
	for j, m := range c.Burst {
		if _, open := latest[m.URI]; !open {
			continue // (a minimised history may have lost the open: changes go to open documents only)
		}
		buf = append(buf, frame(m.body(2000+j))...)
		sent = append(sent, m)
	}
	if len(sent) < 2 {
		return nil
	}
	c.Burst = sent
	const syncID = 950000
	buf = append(buf, frame(Msg{Kind: "unknown"}.body(syncID))...)
	// written from a goroutine of its own: the server answers while it reads, and a client that
	// does not drain those answers until its own write has completed deadlocks with it as soon
	// as either pipe is full (a harness fault found on seed 66: a 1.3 MB burst)
	wrote := make(chan error, 1)
	go func() {
		_, err := p.in.Write(buf)
		wrote <- err
	}()
	defer func() {
		select {
		case <-wrote:
		case <-time.After(20 * time.Second):
		}
	}()
	res.Probes["bursts_of_changes_in_one_write"]++
	var notifs [][]byte
	for k := 0; ; k++ {
		if k > 4*len(c.Burst)+8 {
			res.HarnessErr = "burst: closing request not answered"
			return nil
		}
		b, err := p.readFrame()
		if err != nil {
			if strings.HasPrefix(err.Error(), "watchdog") {
				return viol("transport", "request-never-answered", fmt.Sprintf("%d changes and a closing request were written in one write; the server process is alive but the closing request was not answered within 20 s", len(c.Burst)))
			}
			return nil // the server died on one of the texts: no verdict here
		}
		v, _ := decode(b).(map[string]any)
		if v == nil {
			res.HarnessErr = "burst: undecodable frame"
			return nil
		}
		if _, isNotif := v["method"]; isNotif {
			notifs = append(notifs, b)
			continue
		}
		if fmt.Sprint(v["id"]) == fmt.Sprint(syncID) {
			break
		}
	}
	res.Handled += len(c.Burst)
	for _, m := range c.Burst {
		latest[m.URI] = m.latestText()
	}
	tr.Add("burst of %d changes in one write -> notifs=%s", len(c.Burst), core.Truncate(notifCanon(notifs), 400))
	if v := checkPublished(notifs, latest, shown, fd); v != nil {
		return v
	}
	for _, m := range c.Burst {
		want, ok := fd(m.URI, latest[m.URI])
		if res.HarnessErr != "" {
			return nil
		}
		if ok && shownOr(shown, m.URI) != want {
			return viol("freshness", "diagnostics-not-refreshed", fmt.Sprintf("%d changes to different documents arrived in one write; afterwards the client shows for %s: %s ; a fresh process publishes %s", len(c.Burst), m.URI, core.Truncate(shownOr(shown, m.URI), 400), core.Truncate(want, 400)))
		}
	}
	return nil
}

// checkReplySub mirrors checkReply with fresh *processes* as the reference.
func checkReplySubID(rep reply) *core.Violation {
	if rep.outErr != "" {
		return viol("freshness", "response-for-another-request", rep.outErr)
	}
	return nil
}

func checkReplySub(bin string, m Msg, rep reply, latest map[string]string, shown map[string]string, fd func(string, string) (string, bool), updates map[string]int, res *Result) *core.Violation {
	switch m.Kind {
	case "open", "change":
		text := m.latestText()
		open, _, herr := freshProc(bin, m.URI, &text, nil)
		if herr != nil {
			res.HarnessErr = herr.Error()
			return nil
		}
		if rep.crashed {
			if !open.crashed {
				return viol("crash-consistency", "history-dependent-crash", fmt.Sprintf("%s on %s kills the long-lived process but not a fresh one", m.Kind, m.URI))
			}
			res.Probes["crash_consistent_update"]++
			return nil
		}
		if open.crashed {
			return viol("crash-consistency", "fresh-server-crashes-only", "a fresh process dies on this text, the long-lived one accepted it")
		}
		latest[m.URI] = text
		updates[m.URI]++
		if v := checkPublished(rep.notifs, latest, shown, fd); v != nil {
			return v
		}
		want := "[]"
		for _, p := range publishedDiagnostics(open.notifs) {
			if p.uri == m.URI {
				want = p.diags
			}
		}
		if got := shownOr(shown, m.URI); got != want {
			return viol("freshness", "diagnostics-not-refreshed", fmt.Sprintf("after %s on %s the client shows %s ; a fresh process publishes %s", m.Kind, m.URI, core.Truncate(got, 400), core.Truncate(want, 400)))
		}
		return nil
	case "hover", "definition", "symbols":
		var textp *string
		if t, ok := latest[m.URI]; ok {
			textp = &t
		}
		open, ans, herr := freshProc(bin, m.URI, textp, &m)
		if herr != nil {
			res.HarnessErr = herr.Error()
			return nil
		}
		if open.crashed {
			return viol("crash-consistency", "crash-on-harmless-text", "fresh process dies on a text the long-lived process holds")
		}
		if rep.crashed {
			if !ans.crashed {
				return viol("crash-consistency", "history-dependent-crash", fmt.Sprintf("%s at (%d,%d) kills the long-lived process but not a fresh one", m.Kind, m.Line, m.Char))
			}
			return nil
		}
		if ans.crashed {
			return viol("crash-consistency", "fresh-server-crashes-only", "query kills a fresh process only")
		}
		if v := checkPublished(rep.notifs, latest, shown, fd); v != nil {
			return v
		}
		got, want := answerCanon(m.Kind, rep.result), answerCanon(m.Kind, ans.result)
		if got != want {
			return viol("freshness", "stale-or-foreign-answer", fmt.Sprintf("%s at (%d,%d) on %s returned %s ; a fresh process holding only the latest text returns %s", m.Kind, m.Line, m.Char, m.URI, core.Truncate(got, 500), core.Truncate(want, 500)))
		}
		if updates[m.URI] > 1 {
			res.Probes["query_after_several_updates"]++
		}
		return nil
	default:
		if rep.crashed {
			return viol("crash-consistency", "history-dependent-crash", m.Kind+" killed the server process")
		}
		if m.Kind == "close" {
			delete(latest, m.URI)
			delete(shown, m.URI)
			return nil
		}
		return checkPublished(rep.notifs, latest, shown, fd)
	}
}
