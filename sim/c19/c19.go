//go:build verif

// Package c19: the language server answers from the latest text of the right
// document. The simulated system is an editor client, a byte-stream transport
// and the server; the history of requests, the fragmentation of the stream and
// crash/restart of the server are what the simulator owns.
package c19

import (
	"encoding/json"
	"fmt"
	"math/rand/v2"
	"sort"
	"strings"
	"unicode/utf16"

	"github.com/formancehq/numscript/internal/verifsim/core"
	"github.com/formancehq/numscript/internal/verifsim/gen"
)

// Msg is one client message of a history.
type Msg struct {
	Kind  string     `json:"kind"` // init open change hover definition symbols unknown
	URI   string     `json:"uri,omitempty"`
	Texts []string   `json:"texts,omitempty"` // open: one text; change: n>=1 content changes, the last one is the new text
	Line  int        `json:"line,omitempty"`
	Char  int        `json:"char,omitempty"`
	Spans []gen.Span `json:"spans,omitempty"` // set when the (last) text is a pristine generated script
	Valid bool       `json:"valid,omitempty"`
	Ver   int        `json:"ver,omitempty"`  // document version carried by open / change (per document, restarts at 1 after a close)
	Kill  bool       `json:"kill,omitempty"` // subprocess tier: SIGKILL the server before this message, then restart and re-open
	Cut   int        `json:"cut,omitempty"`  // subprocess tier with Kill: bytes of this frame written before the kill
	// Ranged (change): if the server's initialize answer announces incremental synchronisation
	// this change is sent as two ranged edits of ONE notification, the second positioned on
	// the text the first one leaves (as the protocol defines contentChanges); Prev is the text
	// the document must hold before. A server announcing full synchronisation gets the whole text.
	Ranged bool   `json:"ranged,omitempty"`
	Prev   string `json:"prev,omitempty"`
}

type Case struct {
	Tier  string `json:"tier"` // inproc | subproc | nav
	Msgs  []Msg  `json:"msgs"`
	Frags []int  `json:"frags"`         // fragment sizes of the client->server byte stream, used cyclically; empty = one write per frame
	Hdr   int    `json:"hdr,omitempty"` // header style of the client's frames (0 plain, 1/2 with Content-Type after/before Content-Length)
	// Burst (subprocess tier): changes to DIFFERENT open documents written to the server in one
	// write() after the history, the way "save all" or replace-in-files reaches it; every one of
	// them must be analysed and its diagnostics published
	Burst []Msg `json:"burst,omitempty"`
}

type Result struct {
	Violation  *core.Violation
	Trace      *core.Trace
	Handled    int
	Bytes      int
	Probes     map[string]int
	Nontrivial bool
	HarnessErr string
}

func viol(oracle, class, detail string) *core.Violation {
	return &core.Violation{Property: "C19", Oracle: oracle, Class: class, Predicate: class, Detail: detail}
}

var uris = []string{"file:///w/a.num", "file:///w/b.num", "file:///w/A.num", "file:///w/sub/c.num", "file:///w/d%20e.num", "file:///w/d e.num"}

const ghostURI = "file:///w/never-opened.num"

// ---- JSON-RPC construction

func frame(body []byte) []byte {
	return append([]byte(fmt.Sprintf("Content-Length: %d\r\n\r\n", len(body))), body...)
}

// frameStyled is what an editor may legally send as well: the optional
// Content-Type header of the base protocol, before or after Content-Length.
func frameStyled(body []byte, style int) []byte {
	const ct = "Content-Type: application/vscode-jsonrpc; charset=utf-8\r\n"
	cl := fmt.Sprintf("Content-Length: %d\r\n", len(body))
	switch style % 3 {
	case 1:
		return append([]byte(cl+ct+"\r\n"), body...)
	case 2:
		return append([]byte(ct+cl+"\r\n"), body...)
	}
	return frame(body)
}

func (m Msg) method() string {
	switch m.Kind {
	case "init":
		return "initialize"
	case "open":
		return "textDocument/didOpen"
	case "change":
		return "textDocument/didChange"
	case "hover":
		return "textDocument/hover"
	case "definition":
		return "textDocument/definition"
	case "symbols":
		return "textDocument/documentSymbol"
	case "close":
		return "textDocument/didClose"
	}
	if m.URI != "" && strings.Contains(m.URI, "/") && !strings.HasPrefix(m.URI, "file:") {
		return m.URI // "unknown" messages carry their method name here
	}
	return "workspace/somethingUnknown"
}

func (m Msg) isNotification() bool {
	return m.Kind == "open" || m.Kind == "change" || m.Kind == "close"
}

func (m Msg) isUpdate() bool { return m.Kind == "open" || m.Kind == "change" }

// versionJSON renders a version number the way some clients do: JSON does not
// distinguish 2 from 2.0 or 2e0.
func versionJSON(v int, style int) json.RawMessage {
	switch style % 7 {
	case 5:
		return json.RawMessage(fmt.Sprintf("%d.0", v))
	case 6:
		return json.RawMessage(fmt.Sprintf("%de0", v))
	}
	return json.RawMessage(fmt.Sprint(v))
}

func (m Msg) params(version int) any {
	style := version + len(m.URI)
	if m.Ver > 0 {
		version = m.Ver
	}
	if m.Kind == "open" || m.Kind == "change" {
		vj := versionJSON(version, style)
		if m.Kind == "open" {
			return map[string]any{"textDocument": map[string]any{"uri": m.URI, "languageId": "numscript", "version": vj, "text": m.Texts[0]}}
		}
		return map[string]any{"textDocument": map[string]any{"uri": m.URI, "version": vj}, "contentChanges": m.contentChanges()}
	}
	if (m.Kind == "hover" || m.Kind == "definition" || m.Kind == "symbols") && style%3 == 0 {
		// optional fields of the protocol that this server does not use
		p := map[string]any{"textDocument": map[string]any{"uri": m.URI}, "workDoneToken": "wd-1", "partialResultToken": 7}
		if m.Kind != "symbols" {
			p["position"] = map[string]any{"line": m.Line, "character": m.Char}
		}
		return p
	}
	switch m.Kind {
	case "close":
		return map[string]any{"textDocument": map[string]any{"uri": m.URI}}
	case "init":
		return map[string]any{"processId": 1, "capabilities": map[string]any{}}
	case "open":
		return map[string]any{"textDocument": map[string]any{"uri": m.URI, "languageId": "numscript", "version": version, "text": m.Texts[0]}}
	case "change":
		return map[string]any{"textDocument": map[string]any{"uri": m.URI, "version": version}, "contentChanges": m.contentChanges()}
	case "hover", "definition":
		return map[string]any{"textDocument": map[string]any{"uri": m.URI}, "position": map[string]any{"line": m.Line, "character": m.Char}}
	case "symbols":
		return map[string]any{"textDocument": map[string]any{"uri": m.URI}}
	}
	return map[string]any{"x": 1}
}

// endPos is the LSP position just after the last character of a text (UTF-16 columns).
func endPos(text string) map[string]any {
	line := strings.Count(text, "\n")
	last := text[strings.LastIndex(text, "\n")+1:]
	return map[string]any{"line": line, "character": len(utf16.Encode([]rune(last)))}
}

func (m Msg) contentChanges() []any {
	if m.Ranged && serverSyncKind() == 2 && len(m.Texts) == 1 {
		t := m.Texts[0]
		const tail = "\n// tmp"
		return []any{
			map[string]any{"range": map[string]any{"start": map[string]any{"line": 0, "character": 0}, "end": endPos(m.Prev)}, "text": t + tail},
			map[string]any{"range": map[string]any{"start": endPos(t), "end": endPos(t + tail)}, "text": ""},
		}
	}
	var ch []any
	for _, t := range m.Texts {
		ch = append(ch, map[string]any{"text": t})
	}
	return ch
}

// normaliseRanged keeps the Ranged mark only where Prev is what the document holds at that
// point of THIS history (a minimised history may have lost the update Prev came from).
func normaliseRanged(msgs []Msg) []Msg {
	out := append([]Msg(nil), msgs...)
	latest := map[string]string{}
	for i := range out {
		m := &out[i]
		switch m.Kind {
		case "close":
			delete(latest, m.URI)
		case "open", "change":
			if m.Kind == "change" && m.Ranged {
				if cur, ok := latest[m.URI]; !ok || cur != m.Prev {
					m.Ranged = false
				}
			}
			latest[m.URI] = m.latestText()
		}
	}
	return out
}

func (m Msg) body(id int) []byte {
	o := map[string]any{"jsonrpc": "2.0", "method": m.method(), "params": m.params(id)}
	if !m.isNotification() {
		o["id"] = id
	}
	b, err := json.Marshal(o)
	if err != nil {
		panic(err)
	}
	return b
}

func (m Msg) latestText() string { return m.Texts[len(m.Texts)-1] }

// ---- canonical comparison of answers

func canonJSON(v any) string {
	b, _ := json.Marshal(v)
	return string(b)
}

// sortedList renders a JSON array as a multiset.
func sortedList(v any) []string {
	arr, ok := v.([]any)
	if !ok {
		if v == nil {
			return nil
		}
		return []string{"<not-a-list>" + canonJSON(v)}
	}
	var out []string
	for _, e := range arr {
		out = append(out, canonJSON(e))
	}
	sort.Strings(out)
	return out
}

func decode(b []byte) any {
	var v any
	if err := json.Unmarshal(b, &v); err != nil {
		return "<undecodable>" + string(b)
	}
	return v
}

// answerCanon: canonical form of a response result; symbol lists as multisets.
func answerCanon(kind string, result any) string {
	if kind == "symbols" {
		return "symbols:" + strings.Join(sortedList(result), ",")
	}
	return canonJSON(result)
}

// notifCanon: canonical form of the notifications published by one update.
func notifCanon(frames [][]byte) string {
	var out []string
	for _, f := range frames {
		v, ok := decode(f).(map[string]any)
		if !ok {
			out = append(out, "<bad>"+string(f))
			continue
		}
		p, _ := v["params"].(map[string]any)
		var uri, diags any
		if p != nil {
			uri, diags = p["uri"], p["diagnostics"]
		}
		out = append(out, fmt.Sprintf("%v %v [%s]", v["method"], uri, strings.Join(sortedList(diags), ",")))
	}
	return strings.Join(out, " || ")
}

type published struct {
	uri   string
	diags string // canonical multiset
}

// publishedDiagnostics extracts the publishDiagnostics notifications of one
// exchange; other notifications (log messages ...) are none of this property's business.
func publishedDiagnostics(frames [][]byte) []published {
	var out []published
	for _, f := range frames {
		v, ok := decode(f).(map[string]any)
		if !ok || v["method"] != "textDocument/publishDiagnostics" {
			continue
		}
		p, _ := v["params"].(map[string]any)
		uri, _ := p["uri"].(string)
		out = append(out, published{uri: uri, diags: "[" + strings.Join(sortedList(p["diagnostics"]), ",") + "]"})
	}
	return out
}

// splitFrames parses a captured output stream into message bodies.
func splitFrames(b []byte) ([][]byte, error) {
	var out [][]byte
	for len(b) > 0 {
		i := strings.Index(string(b), "\r\n\r\n")
		if i < 0 {
			return out, fmt.Errorf("output is not LSP-framed: %q", core.Truncate(string(b), 120))
		}
		var n int
		if _, err := fmt.Sscanf(strings.TrimSpace(string(b[:i])), "Content-Length: %d", &n); err != nil {
			return out, fmt.Errorf("bad header %q", string(b[:i]))
		}
		if i+4+n > len(b) {
			return out, fmt.Errorf("truncated frame")
		}
		out = append(out, b[i+4:i+4+n])
		b = b[i+4+n:]
	}
	return out, nil
}

// ---- history generation

func genHistory(r *rand.Rand, tier string) Case {
	c := Case{Tier: tier}
	nuri := 1 + r.IntN(len(uris))
	ndocs := 2 + r.IntN(3)
	base := make([]Doc, ndocs)
	for i := range base {
		base[i] = genDoc(r)
	}
	latest := map[string]Doc{}
	n := 8 + r.IntN(53)
	if tier == "subproc" {
		n = 6 + r.IntN(25)
	}
	if r.IntN(4) != 0 {
		c.Msgs = append(c.Msgs, Msg{Kind: "init"})
	}
	newText := func(u string) Doc {
		cur, ok := latest[u]
		switch {
		case !ok || r.IntN(4) == 0:
			return base[r.IntN(ndocs)]
		case r.IntN(5) == 0:
			return cur // identical text re-sent
		default:
			d := cur
			for k := 1 + r.IntN(3); k > 0; k-- {
				d = edit(r, d)
			}
			return d
		}
	}
	var asked [][2]int
	version := map[string]int{}
	for len(c.Msgs) < n {
		u := uris[r.IntN(nuri)]
		_, opened := latest[u]
		if opened && r.IntN(25) == 0 {
			// close and re-open: the version counter of the document restarts, the text must still be taken
			d := newText(u)
			version[u] = 1
			c.Msgs = append(c.Msgs, Msg{Kind: "close", URI: u}, Msg{Kind: "open", URI: u, Texts: []string{d.Text}, Spans: d.Spans, Valid: d.Valid, Ver: 1})
			latest[u] = d
			continue
		}
		// well-formed histories only (the quantifier says so): a document is opened once
		// (again only after a close), and changed only while open
		w := []float64{0, 5, 4, 3, 2, 0.7, 0.5, 0.5}
		if !opened {
			w = []float64{6, 0, 0.5, 0.5, 0.5, 0.7, 0.3, 0}
		}
		switch core.Weighted(r, w) {
		case 0:
			d := newText(u)
			version[u]++
			c.Msgs = append(c.Msgs, Msg{Kind: "open", URI: u, Texts: []string{d.Text}, Spans: d.Spans, Valid: d.Valid, Ver: version[u]})
			latest[u] = d
		case 1:
			k := 1
			if r.IntN(4) == 0 {
				k = 2 + r.IntN(2)
			}
			var texts []string
			var d Doc
			prev, hadPrev := latest[u]
			for j := 0; j < k; j++ {
				d = newText(u)
				if j < k-1 && r.IntN(2) == 0 {
					d = base[r.IntN(ndocs)] // an earlier content change that must be superseded
				}
				texts = append(texts, d.Text)
				latest[u] = d
			}
			version[u]++
			c.Msgs = append(c.Msgs, Msg{Kind: "change", URI: u, Texts: texts, Spans: d.Spans, Valid: d.Valid, Ver: version[u]})
			if k == 1 && hadPrev && r.IntN(3) == 0 {
				c.Msgs[len(c.Msgs)-1].Ranged, c.Msgs[len(c.Msgs)-1].Prev = true, prev.Text
			}
		case 2, 3:
			kind := "hover"
			if r.IntN(5) < 2 {
				kind = "definition"
			}
			line, ch := pickPosition(r, latest[u])
			if len(asked) > 0 && r.IntN(3) == 0 {
				// the same position again, after other updates or on another document
				p := asked[r.IntN(len(asked))]
				line, ch = p[0], p[1]
			}
			asked = append(asked, [2]int{line, ch})
			c.Msgs = append(c.Msgs, Msg{Kind: kind, URI: u, Line: line, Char: ch})
		case 4:
			c.Msgs = append(c.Msgs, Msg{Kind: "symbols", URI: u})
		case 5:
			kind := core.Pick(r, []string{"hover", "definition", "symbols"})
			c.Msgs = append(c.Msgs, Msg{Kind: kind, URI: ghostURI, Line: r.IntN(5), Char: r.IntN(10)})
		case 6:
			c.Msgs = append(c.Msgs, Msg{Kind: "unknown", URI: core.Pick(r, []string{"", "workspace/didChangeConfiguration", "textDocument/didSave", "$/setTrace", "textDocument/completion", "workspace/symbol", "$/cancelRequest"})})
		default:
			// the text of the latest update of some document sent again, as a new change
			for j := len(c.Msgs) - 1; j >= 0; j-- {
				if c.Msgs[j].isUpdate() {
					if _, stillOpen := latest[c.Msgs[j].URI]; !stillOpen {
						break
					}
					d := latest[c.Msgs[j].URI]
					version[c.Msgs[j].URI]++
					c.Msgs = append(c.Msgs, Msg{Kind: "change", URI: c.Msgs[j].URI, Texts: []string{d.Text}, Spans: d.Spans, Valid: d.Valid, Ver: version[c.Msgs[j].URI]})
					break
				}
			}
		}
	}
	if r.IntN(3) == 0 {
		c.Hdr = 1 + r.IntN(2)
	}
	// transport fragmentation plan
	switch r.IntN(5) {
	case 0: // whole frames
	case 1:
		c.Frags = []int{1}
	case 2:
		for i := 0; i < 8; i++ {
			c.Frags = append(c.Frags, 1+r.IntN(40))
		}
	case 3:
		for i := 0; i < 12; i++ {
			c.Frags = append(c.Frags, 1+r.IntN(3000))
		}
	default:
		c.Frags = []int{16 + r.IntN(10), 1, 1, 1, 1, 2, 1 + r.IntN(500)} // splits inside the header and the blank line
	}
	if tier == "subproc" && r.IntN(2) == 0 {
		open := core.SortedKeys(latest)
		r.Shuffle(len(open), func(a, b int) { open[a], open[b] = open[b], open[a] })
		if len(open) >= 2 {
			for _, u := range open[:2+r.IntN(len(open)-1)] {
				d := newText(u)
				version[u]++
				latest[u] = d
				c.Burst = append(c.Burst, Msg{Kind: "change", URI: u, Texts: []string{d.Text}, Ver: version[u]})
			}
		}
	}
	if tier == "subproc" {
		for i := range c.Msgs {
			if i > 2 && r.IntN(12) == 0 {
				c.Msgs[i].Kill = true
				c.Msgs[i].Cut = r.IntN(40)
			}
		}
	}
	return c
}

func pickPosition(r *rand.Rand, d Doc) (int, int) {
	if len(d.Spans) > 0 && r.IntN(4) != 0 {
		s := d.Spans[r.IntN(len(d.Spans))]
		return s.Line, s.Col + r.IntN(s.Len+2) - 0
	}
	ll := lineLens(d.Text)
	if len(ll) == 0 {
		return r.IntN(3), r.IntN(5)
	}
	line := r.IntN(len(ll) + 1)
	if line >= len(ll) {
		return line, r.IntN(5)
	}
	return line, r.IntN(ll[line] + 3)
}

func genNavCase(r *rand.Rand) Case {
	c := Case{Tier: "nav"}
	c.Msgs = append(c.Msgs, Msg{Kind: "init"})
	// a second document with the same names and other types sits beside the queried one
	other := genDoc(r)
	d := genDoc(r)
	if r.IntN(2) == 0 {
		c.Msgs = append(c.Msgs, Msg{Kind: "open", URI: uris[1], Texts: []string{other.Text}, Spans: other.Spans, Valid: true})
	}
	if r.IntN(2) == 0 {
		c.Msgs = append(c.Msgs, Msg{Kind: "open", URI: uris[0], Texts: []string{other.Text}, Spans: other.Spans, Valid: true})
		c.Msgs = append(c.Msgs, Msg{Kind: "change", URI: uris[0], Texts: []string{d.Text}, Spans: d.Spans, Valid: true})
	} else {
		c.Msgs = append(c.Msgs, Msg{Kind: "open", URI: uris[0], Texts: []string{d.Text}, Spans: d.Spans, Valid: true})
	}
	return c
}

func candidates(c Case) []Case {
	var out []Case
	clone := func() Case {
		b, _ := json.Marshal(c)
		var n Case
		json.Unmarshal(b, &n)
		return n
	}
	if n := len(c.Msgs); n > 3 {
		a := clone()
		a.Msgs = a.Msgs[:n/2]
		out = append(out, a)
		b := clone()
		b.Msgs = b.Msgs[n/2:]
		out = append(out, b)
	}
	for i := range c.Msgs {
		a := clone()
		a.Msgs = append(a.Msgs[:i], a.Msgs[i+1:]...)
		out = append(out, a)
	}
	if len(c.Frags) > 0 {
		a := clone()
		a.Frags = nil
		out = append(out, a)
	}
	for i := range c.Msgs {
		if c.Msgs[i].Kill {
			a := clone()
			a.Msgs[i].Kill = false
			out = append(out, a)
		}
		if len(c.Msgs[i].Texts) > 1 {
			a := clone()
			a.Msgs[i].Texts = a.Msgs[i].Texts[len(a.Msgs[i].Texts)-1:]
			out = append(out, a)
		}
		// shorten texts: drop a line (spans no longer apply)
		for ti, t := range c.Msgs[i].Texts {
			lines := strings.Split(t, "\n")
			if len(lines) > 1 && c.Tier != "nav" {
				for li := range lines {
					a := clone()
					nl := append(append([]string{}, lines[:li]...), lines[li+1:]...)
					a.Msgs[i].Texts[ti] = strings.Join(nl, "\n")
					a.Msgs[i].Spans, a.Msgs[i].Valid = nil, false
					out = append(out, a)
				}
			}
		}
	}
	return out
}

func Execute(c Case, keepTrace bool, bin string) Result {
	c.Msgs = normaliseRanged(c.Msgs)
	switch c.Tier {
	case "subproc":
		return executeSubproc(c, keepTrace, bin)
	default:
		return executeInproc(c, keepTrace)
	}
}

func Worker(o core.WorkerOpts) *core.Report {
	l := core.NewLoop(o)
	distinct := &core.HashSet{}
	subEvery := int64(0)
	if o.Bin != "" {
		subEvery = 25
	}
	setupCapture()
	defer teardownCapture()
	// small-scope exhaustive part first: this worker's share of all histories of
	// length 3 (quick) or 4 (thorough) over the fixed alphabet
	alpha := exhaustiveAlphabet()
	exhLen := 3
	if o.Tier == "thorough" {
		exhLen = 4
	}
	exhTotal := exhaustiveCount(alpha, exhLen)
	exhNext := int64(o.Worker)
	if o.MaxCases > 0 {
		exhNext = exhTotal // determinism self-test: random part only
	}
	workers := int64(o.Workers)
	if workers < 1 {
		workers = 1
	}
	l.Run(func(i int64, caseSeed uint64) {
		r := core.NewRand(caseSeed)
		var c Case
		switch {
		case exhNext < exhTotal:
			// a batch of enumerated histories counts as one loop step
			for k := 0; k < 200 && exhNext < exhTotal; k++ {
				ec, wellFormed := exhaustiveCase(alpha, exhLen, exhNext)
				exhNext += workers
				if !wellFormed {
					l.Rep.Reach["exhaustive_histories_skipped_ill_formed"]++
					continue
				}
				er := Execute(ec, false, o.Bin)
				l.Rep.Evaluations += int64(er.Handled)
				l.Rep.Steps["protocol_messages"] += int64(er.Handled)
				l.Rep.Reach["exhaustive_histories_done"]++
				if er.HarnessErr != "" {
					l.Rep.HarnessErr = er.HarnessErr
					return
				}
				if er.Violation != nil && l.ShouldReport(*er.Violation) {
					fr := Execute(ec, true, o.Bin)
					if fr.Violation == nil {
						fr.Violation = er.Violation // did not repeat (state kept across cases): the sequence replay covers it
					}
					l.AddReplay(*fr.Violation, caseSeed, ec, nil, fr.Trace.Events, fr.Trace.Hash(), 0, "controlled")
				}
			}
			if exhNext >= exhTotal {
				l.Rep.Reach["exhaustive_share_completed"]++
			}
			return
		case subEvery > 0 && i%subEvery == 5:
			c = genHistory(r, "subproc")
		case i%4 == 1:
			c = genNavCase(r)
		default:
			c = genHistory(r, "inproc")
		}
		l.Current(caseSeed, c)
		res := Execute(c, false, o.Bin)
		l.NoteTrace(res.Trace.Hash())
		if res.HarnessErr != "" {
			l.Rep.HarnessErr = res.HarnessErr
			return
		}
		l.Rep.Evaluations += int64(res.Handled)
		l.Rep.Steps["protocol_messages"] += int64(res.Handled)
		l.Rep.Steps["bytes_through_transport"] += int64(res.Bytes)
		l.Rep.Reach["histories/"+c.Tier]++
		for k, v := range res.Probes {
			if strings.HasPrefix(k, "fault/") {
				l.Rep.Faults[strings.TrimPrefix(k, "fault/")] += int64(v)
			} else {
				l.Rep.Reach[k] += int64(v)
			}
		}
		if res.Nontrivial {
			l.Rep.Nontrivial++
			distinct.Add(core.HashJSON(c))
		}
		if i%3000 == 2 || len(l.Rep.Samples) == 0 && res.Nontrivial {
			sc := c
			if len(sc.Msgs) > 6 {
				sc.Msgs = sc.Msgs[:6]
			}
			for j := range sc.Msgs {
				sc.Msgs[j].Spans = nil
			}
			l.Sample(map[string]any{"tier": c.Tier, "messages_total": len(c.Msgs), "first_messages": sc.Msgs, "fragment_sizes": c.Frags})
		}
		if res.Violation != nil {
			v := *res.Violation
			if !l.ShouldReport(v) {
				return
			}
			budget := 1500
			if c.Tier == "subproc" {
				budget = 60
			}
			min, used := core.Minimise(c, candidates, func(n Case) bool {
				rr := Execute(n, false, o.Bin)
				return rr.HarnessErr == "" && rr.Violation != nil && rr.Violation.Signature() == v.Signature()
			}, budget)
			fr := Execute(min, true, o.Bin)
			if fr.Violation == nil {
				fr = Execute(c, true, o.Bin)
				min = c
				if fr.Violation == nil {
					fr.Violation = &v // did not repeat (state kept across cases): the sequence replay covers it
				}
			}
			l.AddReplay(*fr.Violation, caseSeed, min, nil, fr.Trace.Events, fr.Trace.Hash(), used, "controlled")
		}
	})
	l.Rep.SaveHashes(o.OutDir, "nontrivial_cases", distinct)
	return l.Rep
}

func Replay(raw json.RawMessage, o core.WorkerOpts) (*core.Violation, *core.Trace, error) {
	var c Case
	if err := json.Unmarshal(raw, &c); err != nil {
		return nil, nil, err
	}
	setupCapture()
	defer teardownCapture()
	res := Execute(c, true, o.Bin)
	if res.HarnessErr != "" {
		return nil, nil, fmt.Errorf("%s", res.HarnessErr)
	}
	return res.Violation, res.Trace, nil
}
