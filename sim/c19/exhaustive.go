//go:build verif

package c19

import (
	"github.com/formancehq/numscript/internal/verifsim/gen"
)

// Small-scope exhaustive part: every history of a fixed length over a small
// alphabet of updates and queries on two URIs and three texts that declare
// the same variable name with different types. The alphabet is fixed, the
// enumeration is partitioned over the workers by index.

type letter struct {
	msg Msg
}

func exhaustiveAlphabet() []Msg {
	t0 := gen.Program{
		Vars:  []gen.VarDecl{{Type: "account", Name: "a"}, {Type: "monetary", Name: "b"}},
		Stmts: []gen.Stmt{{K: "send", Amt: gen.Var("b"), Src: &gen.Src{K: "acc", E: gen.Var("a")}, Dst: &gen.Dst{K: "acc", E: gen.Acc("x")}}},
	}.Print()
	t1 := gen.Program{
		Vars:  []gen.VarDecl{{Type: "monetary", Name: "a"}},
		Stmts: []gen.Stmt{{K: "send", Amt: gen.Var("a"), Src: &gen.Src{K: "acc", E: gen.Acc("world")}, Dst: &gen.Dst{K: "acc", E: gen.Acc("y")}}},
	}.Print()
	t2 := "send [USD 1] (\n  source = $a\n"
	docs := []Doc{{Text: t0.Text, Spans: t0.Spans, Valid: true}, {Text: t1.Text, Spans: t1.Spans, Valid: true}, {Text: t2}}
	// query positions: the use of $a in t0 and the use of $a in t1
	pos := [][2]int{}
	for _, d := range docs[:2] {
		for _, s := range d.Spans {
			if s.Kind == "use" && s.Name == "a" {
				pos = append(pos, [2]int{s.Line, s.Col + 1})
				break
			}
		}
	}
	var out []Msg
	for _, u := range uris[:2] {
		for i, d := range docs {
			out = append(out, Msg{Kind: "open", URI: u, Texts: []string{d.Text}, Spans: d.Spans, Valid: d.Valid})
			out = append(out, Msg{Kind: "change", URI: u, Texts: []string{d.Text}, Spans: d.Spans, Valid: d.Valid})
			other := docs[(i+1)%len(docs)]
			out = append(out, Msg{Kind: "change", URI: u, Texts: []string{other.Text, d.Text}, Spans: d.Spans, Valid: d.Valid})
		}
		for _, p := range pos {
			out = append(out, Msg{Kind: "hover", URI: u, Line: p[0], Char: p[1]})
		}
		out = append(out, Msg{Kind: "definition", URI: u, Line: pos[0][0], Char: pos[0][1]})
		out = append(out, Msg{Kind: "symbols", URI: u})
	}
	return out
}

// exhaustiveCase returns the idx-th history of the given length, and whether it
// is well-formed (a document is opened before it is changed and is not opened twice).
func exhaustiveCase(alpha []Msg, length int, idx int64) (Case, bool) {
	c := Case{Tier: "exh"}
	n := int64(len(alpha))
	open := map[string]bool{}
	ok := true
	for i := 0; i < length; i++ {
		m := alpha[idx%n]
		idx /= n
		switch m.Kind {
		case "open":
			if open[m.URI] {
				ok = false
			}
			open[m.URI] = true
		case "change":
			if !open[m.URI] {
				ok = false
			}
		}
		c.Msgs = append(c.Msgs, m)
	}
	return c, ok
}

func exhaustiveCount(alpha []Msg, length int) int64 {
	n := int64(1)
	for i := 0; i < length; i++ {
		n *= int64(len(alpha))
	}
	return n
}
