//go:build verif

package c19

import (
	"fmt"
	"math/rand/v2"
	"regexp"
	"strings"
	"unicode/utf8"

	"github.com/formancehq/numscript/internal/verifsim/gen"
)

// Doc is one version of a document as the client knows it. Spans are present
// only for pristine generated scripts (navigation expectations need them).
type Doc struct {
	Text  string     `json:"text"`
	Spans []gen.Span `json:"spans,omitempty"`
	Valid bool       `json:"valid,omitempty"` // generated, unedited: the navigation oracle applies
}

var sharedNames = []string{"a", "b", "x", "amount", "src", "dst", "fee", "rate", "who", "cur"}

// renameVars maps every declared variable to a name from a small shared pool,
// irrespective of its type, so that documents of different URIs declare the
// same names with different types (a cross-document leak then changes an answer).
func renameVars(r *rand.Rand, p gen.Program) gen.Program {
	p = p.Clone()
	perm := r.Perm(len(sharedNames))
	m := map[string]string{}
	for i, v := range p.Vars {
		if i < len(perm) {
			m[v.Name] = sharedNames[perm[i]]
		}
	}
	// names written inside comments and string literals ("$name" as text) follow the renaming
	mention := regexp.MustCompile(`\$[a-z_][a-z0-9_]*`)
	inText := func(t string) string {
		return mention.ReplaceAllStringFunc(t, func(w string) string {
			if n, ok := m[w[1:]]; ok {
				return "$" + n
			}
			return w
		})
	}
	ren := func(e *gen.Expr) {
		if e.K == "var" {
			if n, ok := m[e.S]; ok {
				e.S = n
			}
		}
		if e.K == "str" {
			e.S = inText(e.S)
		}
	}
	for i := range p.Stmts {
		p.Stmts[i].Comment = inText(p.Stmts[i].Comment)
	}
	for i := range p.Vars {
		if n, ok := m[p.Vars[i].Name]; ok {
			p.Vars[i].Name = n
		}
	}
	walkMut(&p, ren)
	return p
}

// walkMut visits every expression and allotment variable for in-place edits.
func walkMut(p *gen.Program, f func(*gen.Expr)) {
	var ex func(e *gen.Expr)
	ex = func(e *gen.Expr) {
		if e == nil {
			return
		}
		f(e)
		ex(e.L)
		ex(e.R)
	}
	al := func(a *gen.Allot) {
		if a.K == "var" {
			e := &gen.Expr{K: "var", S: a.S}
			f(e)
			a.S = e.S
		}
	}
	var src func(s *gen.Src)
	src = func(s *gen.Src) {
		if s == nil {
			return
		}
		ex(s.E)
		ex(s.B)
		for i := range s.Subs {
			src(&s.Subs[i])
		}
		for i := range s.Items {
			al(&s.Items[i].A)
			src(&s.Items[i].From)
		}
	}
	var dst func(d *gen.Dst)
	kod := func(k *gen.KoD) {
		if k != nil && k.D != nil {
			dst(k.D)
		}
	}
	dst = func(d *gen.Dst) {
		if d == nil {
			return
		}
		ex(d.E)
		for i := range d.Clauses {
			ex(&d.Clauses[i].Cap)
			kod(&d.Clauses[i].To)
		}
		kod(d.Rem)
		for i := range d.Items {
			al(&d.Items[i].A)
			kod(&d.Items[i].To)
		}
	}
	for i := range p.Vars {
		for j := range p.Vars[i].Args {
			ex(&p.Vars[i].Args[j])
		}
	}
	for i := range p.Stmts {
		s := &p.Stmts[i]
		ex(s.Amt)
		ex(s.Acc)
		src(s.Src)
		dst(s.Dst)
		for j := range s.Args {
			ex(&s.Args[j])
		}
	}
}

func genDoc(r *rand.Rand) Doc {
	prof := gen.DrawProfile(r)
	prof.PWrongAsset = 0
	prof.PVarUse = []float64{0.5, 0.8, 0.95}[r.IntN(3)]
	if prof.MaxVars < 3 {
		prof.MaxVars = 3 + r.IntN(4)
	}
	prof.POrigin = []float64{0.2, 0.5}[r.IntN(2)]
	prof.PComment = []float64{0, 0.3, 0.6}[r.IntN(3)]
	prof.PNonASCII = []float64{0, 0.5}[r.IntN(2)]
	prof.PCall = []float64{0.1, 0.3}[r.IntN(2)]
	g := gen.Generate(r, prof)
	p := renameVars(r, g.Prog)
	if len(p.Vars) > 0 && r.IntN(8) == 0 {
		// a name declared twice (an error diagnostic; navigation goes to the first declaration)
		d := p.Vars[r.IntN(len(p.Vars))]
		if r.IntN(2) == 0 {
			d.Fn, d.Args = "", nil
			d.Type = []string{"account", "asset", "number", "monetary", "portion", "string"}[r.IntN(6)]
		} else if d.Fn == "" && len(p.Vars) > 1 {
			// the repeated declaration gets an origin that uses another declared variable
			other := p.Vars[r.IntN(len(p.Vars))]
			if other.Type == "account" && other.Name != d.Name {
				d.Type, d.Fn, d.Args = "monetary", "balance", []gen.Expr{*gen.Var(other.Name), *gen.Asset("USD")}
			} else {
				d.Type, d.Fn, d.Args = "string", "meta", []gen.Expr{*gen.Acc("a"), *gen.Str("k")}
			}
		}
		p.Vars = append(p.Vars, d)
	}
	if r.IntN(12) == 0 {
		// a type name that does not exist (an error diagnostic); hover still names the declared type
		for i := range p.Vars {
			if p.Vars[i].Fn != "" && r.IntN(2) == 0 {
				p.Vars[i].Type = []string{"monetry", "amount", "acount", "num"}[r.IntN(4)]
				break
			}
		}
	}
	if r.IntN(10) == 0 {
		// a name that is declared nowhere, used twice: not a use of a declared variable, nothing to answer
		for k := 0; k < 2; k++ {
			p.Stmts = append(p.Stmts, gen.Stmt{K: "call", Fn: "set_tx_meta", Args: []gen.Expr{*gen.Str(fmt.Sprintf("ghost%d", k)), *gen.Var("ghost")}})
		}
	}
	if r.IntN(12) == 0 {
		// a variable mentioned in its own origin: declared, so hover and definition identify it
		name := "selfref"
		p.Vars = append(p.Vars, gen.VarDecl{Type: "account", Name: name, Fn: "meta", Args: []gen.Expr{*gen.Var(name), *gen.Str("parent")}})
	}
	pr := p.Print()
	if r.IntN(10) == 0 {
		// Windows line endings: lines and columns of every token are unchanged
		pr.Text = strings.ReplaceAll(pr.Text, "\n", "\r\n")
	}
	return Doc{Text: pr.Text, Spans: pr.Spans, Valid: true}
}

// edit models typing: the result is near the input and usually not a valid script.
func edit(r *rand.Rand, d Doc) Doc {
	return Doc{Text: gen.EditText(r, d.Text)}
}

func lineLens(text string) []int {
	var out []int
	for _, l := range strings.Split(text, "\n") {
		out = append(out, utf8.RuneCountInString(l))
	}
	return out
}
