//go:build verif

package c19

import (
	"math/rand/v2"
	"strings"
	"unicode/utf8"

	"github.com/formancehq/numscript/internal/verifsim/core"
	"github.com/formancehq/numscript/internal/verifsim/gen"
)

// Doc is one version of a document as the client knows it. Spans are present
// only for pristine generated scripts (navigation expectations need them).
type Doc struct {
	Text  string     `json:"text"`
	Spans []gen.Span `json:"spans,omitempty"`
	Valid bool       `json:"valid,omitempty"` // generated, unedited: the navigation oracle applies
}

var sharedNames = []string{"a", "b", "x", "amount", "src", "dst", "fee", "rate", "who", "cur"}

// renameVars maps every declared variable to a name from a small shared pool,
// irrespective of its type, so that documents of different URIs declare the
// same names with different types (a cross-document leak then changes an answer).
func renameVars(r *rand.Rand, p gen.Program) gen.Program {
	p = p.Clone()
	perm := r.Perm(len(sharedNames))
	m := map[string]string{}
	for i, v := range p.Vars {
		if i < len(perm) {
			m[v.Name] = sharedNames[perm[i]]
		}
	}
	ren := func(e *gen.Expr) {
		if e.K == "var" {
			if n, ok := m[e.S]; ok {
				e.S = n
			}
		}
	}
	for i := range p.Vars {
		if n, ok := m[p.Vars[i].Name]; ok {
			p.Vars[i].Name = n
		}
	}
	walkMut(&p, ren)
	return p
}

// walkMut visits every expression and allotment variable for in-place edits.
func walkMut(p *gen.Program, f func(*gen.Expr)) {
	var ex func(e *gen.Expr)
	ex = func(e *gen.Expr) {
		if e == nil {
			return
		}
		f(e)
		ex(e.L)
		ex(e.R)
	}
	al := func(a *gen.Allot) {
		if a.K == "var" {
			e := &gen.Expr{K: "var", S: a.S}
			f(e)
			a.S = e.S
		}
	}
	var src func(s *gen.Src)
	src = func(s *gen.Src) {
		if s == nil {
			return
		}
		ex(s.E)
		ex(s.B)
		for i := range s.Subs {
			src(&s.Subs[i])
		}
		for i := range s.Items {
			al(&s.Items[i].A)
			src(&s.Items[i].From)
		}
	}
	var dst func(d *gen.Dst)
	kod := func(k *gen.KoD) {
		if k != nil && k.D != nil {
			dst(k.D)
		}
	}
	dst = func(d *gen.Dst) {
		if d == nil {
			return
		}
		ex(d.E)
		for i := range d.Clauses {
			ex(&d.Clauses[i].Cap)
			kod(&d.Clauses[i].To)
		}
		kod(d.Rem)
		for i := range d.Items {
			al(&d.Items[i].A)
			kod(&d.Items[i].To)
		}
	}
	for i := range p.Vars {
		for j := range p.Vars[i].Args {
			ex(&p.Vars[i].Args[j])
		}
	}
	for i := range p.Stmts {
		s := &p.Stmts[i]
		ex(s.Amt)
		ex(s.Acc)
		src(s.Src)
		dst(s.Dst)
		for j := range s.Args {
			ex(&s.Args[j])
		}
	}
}

func genDoc(r *rand.Rand) Doc {
	prof := gen.DrawProfile(r)
	prof.PWrongAsset = 0
	prof.PVarUse = []float64{0.5, 0.8, 0.95}[r.IntN(3)]
	if prof.MaxVars < 3 {
		prof.MaxVars = 3 + r.IntN(4)
	}
	prof.POrigin = []float64{0.2, 0.5}[r.IntN(2)]
	prof.PComment = []float64{0, 0.3, 0.6}[r.IntN(3)]
	prof.PNonASCII = []float64{0, 0.5}[r.IntN(2)]
	prof.PCall = []float64{0.1, 0.3}[r.IntN(2)]
	g := gen.Generate(r, prof)
	p := renameVars(r, g.Prog)
	pr := p.Print()
	return Doc{Text: pr.Text, Spans: pr.Spans, Valid: true}
}

var junk = []string{"send", "{", "}", "(", ")", "$", "@", "[", "]", "max", "remaining", "kept", "vars", "=", "1/", "%", "\"", "//", "/*", "to", "from", "USD", "$zz", "*", "-", "+"}

// tokenise splits on whitespace boundaries but keeps the separators, so that
// joining the pieces gives back the text.
func tokenise(s string) []string {
	var out []string
	cur := strings.Builder{}
	space := false
	for _, c := range s {
		isSp := c == ' ' || c == '\n' || c == '\t'
		if cur.Len() > 0 && isSp != space {
			out = append(out, cur.String())
			cur.Reset()
		}
		space = isSp
		cur.WriteRune(c)
	}
	if cur.Len() > 0 {
		out = append(out, cur.String())
	}
	return out
}

// edit models typing: the result is near the input and usually not a valid script.
func edit(r *rand.Rand, d Doc) Doc {
	t := d.Text
	runes := []rune(t)
	switch r.IntN(10) {
	case 9: // a line that makes today's parser / checker panic: exercises server crash, restart and re-open
		return Doc{Text: t + core.Pick(r, []string{
			"send [USD 99999999999999999999] (source = @a destination = @b)\n",
			"send [USD 1] (source = { 08% from @a remaining from @b } destination = @c)\n",
			"send [USD 1] (source = @a destination = { 1/0 to @a remaining to @b })\n",
		})}
	case 0: // prefix at character granularity
		if len(runes) > 0 {
			return Doc{Text: string(runes[:r.IntN(len(runes)+1)])}
		}
	case 1: // prefix at token granularity
		tk := tokenise(t)
		if len(tk) > 0 {
			return Doc{Text: strings.Join(tk[:r.IntN(len(tk)+1)], "")}
		}
	case 2: // delete a token
		tk := tokenise(t)
		if len(tk) > 1 {
			i := r.IntN(len(tk))
			return Doc{Text: strings.Join(append(append([]string{}, tk[:i]...), tk[i+1:]...), "")}
		}
	case 3: // duplicate a token
		tk := tokenise(t)
		if len(tk) > 0 {
			i := r.IntN(len(tk))
			out := append(append([]string{}, tk[:i+1]...), tk[i:]...)
			return Doc{Text: strings.Join(out, "")}
		}
	case 4: // insert junk
		tk := tokenise(t)
		i := r.IntN(len(tk) + 1)
		out := append(append(append([]string{}, tk[:i]...), " "+core.Pick(r, junk)+" "), tk[i:]...)
		return Doc{Text: strings.Join(out, "")}
	case 5: // rename one occurrence of a variable
		idx := strings.Index(t, "$")
		if idx >= 0 {
			all := []int{}
			for i, c := range t {
				if c == '$' {
					all = append(all, i)
				}
			}
			i := all[r.IntN(len(all))]
			return Doc{Text: t[:i] + "$" + core.Pick(r, sharedNames) + "_" + t[i+1:]}
		}
	case 6: // drop one bracket
		var pos []int
		for i, c := range t {
			if strings.ContainsRune("{}()[]", c) {
				pos = append(pos, i)
			}
		}
		if len(pos) > 0 {
			i := pos[r.IntN(len(pos))]
			return Doc{Text: t[:i] + t[i+1:]}
		}
	case 7: // delete a character
		if len(runes) > 0 {
			i := r.IntN(len(runes))
			return Doc{Text: string(append(append([]rune{}, runes[:i]...), runes[i+1:]...))}
		}
	default: // append a line being typed
		return Doc{Text: t + core.Pick(r, []string{"send [USD 1", "send [USD 10] (\n  source = @a\n", "vars {", "set_tx_meta(\"k\", ", "save [USD *] from ", "// note\n", "send $amount (source = $src destination = $dst)\n"})}
	}
	return Doc{Text: t + " "}
}

func lineLens(text string) []int {
	var out []int
	for _, l := range strings.Split(text, "\n") {
		out = append(out, utf8.RuneCountInString(l))
	}
	return out
}
