//go:build verif

package c19

import (
	"encoding/json"
	"fmt"
	"io"
	"os"
	"strings"

	"github.com/formancehq/numscript/internal/analysis"
	"github.com/formancehq/numscript/internal/lsp"
	"github.com/formancehq/numscript/internal/parser"
	"github.com/formancehq/numscript/internal/verifsim/core"
	"github.com/formancehq/numscript/internal/verifsim/gen"
	"github.com/sourcegraph/jsonrpc2"
)

// ---- output capture: lsp.SendNotification writes to os.Stdout / os.Stderr.
// The worker swaps both variables for unlinked temp files for its lifetime and
// reads back what each Handle call appended.

var (
	realOut, realErr *os.File
	capOut, capErr   *os.File
	capOff           int64
)

func setupCapture() {
	if capOut != nil {
		return
	}
	mk := func() *os.File {
		f, err := os.CreateTemp("", "verif-lspcap-")
		if err != nil {
			panic(err)
		}
		os.Remove(f.Name())
		return f
	}
	capOut, capErr = mk(), mk()
	realOut, realErr = os.Stdout, os.Stderr
	os.Stdout, os.Stderr = capOut, capErr
}

func teardownCapture() {
	if capOut == nil {
		return
	}
	os.Stdout, os.Stderr = realOut, realErr
	capOut.Close()
	capErr.Close()
	capOut, capErr = nil, nil
	capOff = 0
}

func captured() []byte {
	end, _ := capOut.Seek(0, io.SeekCurrent)
	if end <= capOff {
		return nil
	}
	b := make([]byte, end-capOff)
	capOut.ReadAt(b, capOff)
	capOff = end
	if end > 8<<20 {
		capOut.Truncate(0)
		capOut.Seek(0, io.SeekStart)
		capErr.Truncate(0)
		capErr.Seek(0, io.SeekStart)
		capOff = 0
	}
	return b
}

// ---- SimPipe: the client->server byte stream, delivered in seeded fragments.
// It never reports EOF (MessageBuffer.Read exits the process on EOF): after
// the history it delivers sentinel frames.

type simPipe struct {
	data  []byte
	pos   int
	frags []int
	fi    int
	left  int
	Reads int
	Multi int // reads that delivered bytes of more than one frame
	ends  []int
}

var sentinel = frame([]byte(`{"jsonrpc":"2.0","method":"$/verif-sentinel"}`))

func (p *simPipe) Read(b []byte) (int, error) {
	if p.pos >= len(p.data) {
		p.data = append(p.data, sentinel...)
	}
	n := len(p.data) - p.pos
	if len(p.frags) > 0 {
		if p.left == 0 {
			p.left = p.frags[p.fi%len(p.frags)]
			p.fi++
		}
		if n > p.left {
			n = p.left
		}
	} else {
		// one write per frame
		for _, e := range p.ends {
			if e > p.pos {
				if n > e-p.pos {
					n = e - p.pos
				}
				break
			}
		}
	}
	if n > len(b) {
		n = len(b)
	}
	copy(b, p.data[p.pos:p.pos+n])
	// probe: did this read span a frame boundary?
	for _, e := range p.ends {
		if e > p.pos && e < p.pos+n {
			p.Multi++
			break
		}
	}
	p.pos += n
	if p.left > 0 {
		p.left -= n
	}
	p.Reads++
	return n, nil
}

// ---- one server incarnation

type server struct {
	state lsp.State
}

var syncKindOnce struct {
	done bool
	kind int
}

// serverSyncKind asks a fresh server what its initialize answer announces for
// textDocumentSync.change (1 full, 2 incremental); a client follows that.
func serverSyncKind() int {
	if syncKindOnce.done {
		return syncKindOnce.kind
	}
	syncKindOnce.done = true
	defer func() { recover() }()
	active := capOut != nil
	if !active {
		setupCapture()
	}
	rep := newServer().handle(mkReq(Msg{Kind: "init"}, 1))
	if !active {
		teardownCapture()
	}
	b, _ := json.Marshal(rep.result)
	var r struct {
		Capabilities struct {
			TextDocumentSync json.RawMessage `json:"textDocumentSync"`
		} `json:"capabilities"`
	}
	json.Unmarshal(b, &r)
	var n int
	if json.Unmarshal(r.Capabilities.TextDocumentSync, &n) == nil {
		syncKindOnce.kind = n
		return n
	}
	var o struct {
		Change int `json:"change"`
	}
	json.Unmarshal(r.Capabilities.TextDocumentSync, &o)
	syncKindOnce.kind = o.Change
	return o.Change
}

func newServer() *server { return &server{state: lsp.InitialState()} }

type reply struct {
	crashed bool
	panicV  string
	result  any      // decoded response result
	notifs  [][]byte // notification bodies written to stdout during the call
	outErr  string
	id      string // subprocess tier: id carried by the response
}

func (s *server) handle(req jsonrpc2.Request) (rep reply) {
	captured()
	defer func() {
		if r := recover(); r != nil {
			captured()
			rep = reply{crashed: true, panicV: fmt.Sprint(r)}
		}
	}()
	res := lsp.Handle(req, &s.state)
	b, err := json.Marshal(res)
	if err != nil {
		return reply{crashed: true, panicV: "response cannot be encoded: " + err.Error()}
	}
	rep.result = decode(b)
	frames, ferr := splitFrames(captured())
	if ferr != nil {
		rep.outErr = ferr.Error()
	}
	rep.notifs = frames
	return rep
}

func mkReq(m Msg, id int) jsonrpc2.Request {
	var req jsonrpc2.Request
	if err := req.UnmarshalJSON(m.body(id)); err != nil {
		panic(err)
	}
	return req
}

// fresh answers m on a new server that has only seen didOpen(uri, text).
func fresh(uri string, text *string, m *Msg) (open reply, ans reply) {
	s := newServer()
	if text != nil {
		open = s.handle(mkReq(Msg{Kind: "open", URI: uri, Texts: []string{*text}}, 1))
		if open.crashed {
			return open, reply{}
		}
	}
	if m != nil {
		ans = s.handle(mkReq(*m, 2))
	}
	return open, ans
}

// libraryDiags / librarySymbols: what the analysis *library* says about a text, rendered
// the way the protocol carries it. "A fresh analysis of the document's latest text" is the
// reference the property names; a fresh *server* shares the conversion code of the
// long-lived one, so a wrong conversion would be invisible to a server-vs-server comparison.
func lspRange(r parser.Range) map[string]any {
	pos := func(p parser.Position) map[string]any {
		return map[string]any{"line": float64(p.Line), "character": float64(p.Character)}
	}
	return map[string]any{"start": pos(r.Start), "end": pos(r.End)}
}

func libraryAnalysis(text string) (diags string, symbols string, ok bool) {
	defer func() {
		if recover() != nil {
			ok = false
		}
	}()
	res := analysis.CheckSource(text)
	var ds []any
	for _, d := range res.Diagnostics {
		ds = append(ds, map[string]any{"range": lspRange(d.Range), "severity": float64(d.Kind.Severity()), "message": d.Kind.Message()})
	}
	var ss []any
	for _, sym := range res.GetSymbols() {
		m := map[string]any{"name": sym.Name, "kind": float64(sym.Kind), "range": lspRange(sym.Range), "selectionRange": lspRange(sym.SelectionRange)}
		if sym.Detail != "" {
			m["detail"] = sym.Detail
		}
		ss = append(ss, m)
	}
	return "[" + strings.Join(sortedList(ds), ",") + "]", "symbols:" + strings.Join(sortedList(ss), ","), true
}

// freshDiags is what a fresh server publishes for (uri, text), as a canonical multiset.
func freshDiags(uri, text string) (string, bool) {
	open, _ := fresh(uri, &text, nil)
	if open.crashed {
		return "", false
	}
	for _, p := range publishedDiagnostics(open.notifs) {
		if p.uri == uri {
			return p.diags, true
		}
	}
	return "[]", true
}

// checkPublished applies the diagnostics half of the freshness oracle to whatever one
// exchange published: every published set must be the fresh analysis of the latest text of
// the document it names. shown records what the client displays per document.
func checkPublished(notifs [][]byte, latest map[string]string, shown map[string]string, fd func(uri, text string) (string, bool)) *core.Violation {
	for _, p := range publishedDiagnostics(notifs) {
		text, ok := latest[p.uri]
		if !ok {
			return viol("freshness", "diagnostics-for-unknown-document", fmt.Sprintf("diagnostics %s published for %s, a document the client never opened", core.Truncate(p.diags, 200), p.uri))
		}
		want, ok := fd(p.uri, text)
		if !ok {
			continue // the text crashes a fresh server: crash consistency is judged elsewhere
		}
		if p.diags != want {
			return viol("freshness", "stale-or-foreign-diagnostics", fmt.Sprintf("published for %s: %s ; a fresh analysis of its latest text gives %s", p.uri, core.Truncate(p.diags, 400), core.Truncate(want, 400)))
		}
		shown[p.uri] = p.diags
	}
	return nil
}

func shownOr(shown map[string]string, uri string) string {
	if d, ok := shown[uri]; ok {
		return d
	}
	return "[]"
}

func executeInproc(c Case, keepTrace bool) Result {
	tr := core.NewTrace(keepTrace)
	res := Result{Trace: tr, Probes: map[string]int{}}
	// the client writes every frame into the pipe; the server reads them one by one
	pipe := &simPipe{frags: c.Frags}
	for i, m := range c.Msgs {
		pipe.data = append(pipe.data, frameStyled(m.body(i+1), c.Hdr+i*boolInt(c.Hdr > 0))...)
		pipe.ends = append(pipe.ends, len(pipe.data))
	}
	res.Bytes = len(pipe.data)
	mb := lsp.NewMessageBuffer(pipe)
	srv := newServer()
	latest := map[string]string{}
	shown := map[string]string{}
	spans := map[string][]gen.Span{}
	updates := map[string]int{}
	for i, m := range c.Msgs {
		// transport: the request the server decodes must be the one the client sent
		req, rerr := func() (r jsonrpc2.Request, err error) {
			defer func() {
				if x := recover(); x != nil {
					err = fmt.Errorf("MessageBuffer.Read panicked: %v", x)
				}
			}()
			return mb.Read(), nil
		}()
		if rerr != nil {
			res.Violation = viol("transport", "read-crash", fmt.Sprintf("message %d (%s) with fragments %v: %v", i+1, m.Kind, c.Frags, rerr))
			return res
		}
		want := mkReq(m, i+1)
		if req.Method != want.Method || req.Notif != want.Notif || (!want.Notif && req.ID != want.ID) || string(rawOrEmpty(req.Params)) != string(rawOrEmpty(want.Params)) {
			res.Violation = viol("transport", "message-corrupted", fmt.Sprintf("message %d: client sent %s id=%v, server decoded %s id=%v (fragments %v)", i+1, want.Method, want.ID, req.Method, req.ID, c.Frags))
			return res
		}
		rep := srv.handle(req)
		res.Handled++
		tr.Add("msg %d %s %s (%d,%d) -> crashed=%v result=%s notifs=%s", i+1, m.Kind, m.URI, m.Line, m.Char, rep.crashed, core.Truncate(answerCanon(m.Kind, rep.result), 300), core.Truncate(notifCanon(rep.notifs), 300))
		if v := checkReply(m, rep, latest, shown, spans, updates, &res); v != nil {
			v.Detail = fmt.Sprintf("message %d of %d: %s", i+1, len(c.Msgs), v.Detail)
			res.Violation = v
			return res
		}
		if rep.crashed {
			// the process would be gone: state lost, client restarts the server and re-opens its documents
			res.Probes["fault/server_crash_and_restart"]++
			srv = newServer()
			for _, u := range core.SortedKeys(latest) {
				text := latest[u]
				r2 := srv.handle(mkReq(Msg{Kind: "open", URI: u, Texts: []string{text}}, 1000+i))
				res.Handled++
				if r2.crashed {
					res.Violation = viol("crash-consistency", "crash-on-harmless-text-after-restart", fmt.Sprintf("re-opening %s with a text that was analysed before crashes the restarted server: %s", u, r2.panicV))
					return res
				}
				delete(shown, u)
				if v := checkPublished(r2.notifs, latest, shown, freshDiags); v != nil {
					v.Detail = "after restart: " + v.Detail
					res.Violation = v
					return res
				}
				if want, ok := freshDiags(u, text); ok && shownOr(shown, u) != want {
					res.Violation = viol("freshness", "diagnostics-not-refreshed", fmt.Sprintf("after restart and re-open of %s the client shows %s ; a fresh analysis gives %s", u, shownOr(shown, u), want))
					return res
				}
			}
		}
	}
	if pipe.Multi > 0 {
		res.Probes["two_frames_in_one_read"] += pipe.Multi
	}
	if len(c.Frags) > 0 {
		res.Probes["fault/fragmented_stream"]++
		res.Probes["transport_reads"] += pipe.Reads
		for _, f := range c.Frags {
			if f < 20 {
				res.Probes["frame_split_inside_header"]++
				break
			}
		}
	}
	multi := 0
	for _, n := range updates {
		if n > 1 {
			multi++
		}
	}
	res.Nontrivial = (multi > 0 || len(latest) > 1) && res.Handled >= 3
	if c.Tier == "nav" {
		navigate(c, srv, latest, spans, &res)
		res.Nontrivial = res.Handled > 10
	}
	return res
}

func boolInt(b bool) int {
	if b {
		return 1
	}
	return 0
}

func rawOrEmpty(r *json.RawMessage) []byte {
	if r == nil {
		return nil
	}
	return *r
}

// checkReply applies the freshness / isolation / crash-consistency oracles to
// one message and updates the client model.
func checkReply(m Msg, rep reply, latest map[string]string, shown map[string]string, spans map[string][]gen.Span, updates map[string]int, res *Result) *core.Violation {
	if rep.outErr != "" {
		return viol("freshness", "output-not-framed", rep.outErr)
	}
	switch m.Kind {
	case "open", "change":
		text := m.latestText()
		open, _ := fresh(m.URI, &text, nil)
		if len(m.Texts) > 1 {
			res.Probes["didChange_with_several_content_changes"]++
		}
		if prev, ok := latest[m.URI]; ok && prev == text {
			res.Probes["identical_text_resent"]++
		}
		if m.Kind == "change" {
			if _, ok := latest[m.URI]; !ok {
				res.Probes["didChange_on_never_opened_uri"]++
			}
		}
		if rep.crashed {
			if !open.crashed {
				return viol("crash-consistency", "history-dependent-crash", fmt.Sprintf("%s on %s crashes the long-lived server (%s) but not a fresh server given the same text", m.Kind, m.URI, rep.panicV))
			}
			res.Probes["crash_consistent_update"]++
			// the crashing text never became the document's content for the client's purposes:
			// after the restart the client re-opens the last harmless text
			return nil
		}
		if open.crashed {
			return viol("crash-consistency", "fresh-server-crashes-only", fmt.Sprintf("a fresh server crashes on this text (%s) but the long-lived one accepted it", open.panicV))
		}
		latest[m.URI] = text
		updates[m.URI]++
		if m.Valid {
			spans[m.URI] = m.Spans
		} else {
			delete(spans, m.URI)
		}
		if v := checkPublished(rep.notifs, latest, shown, freshDiags); v != nil {
			return v
		}
		// whatever was or was not published, what the client now shows for this document must
		// be the fresh analysis of its new text
		want := "[]"
		for _, p := range publishedDiagnostics(open.notifs) {
			if p.uri == m.URI {
				want = p.diags
			}
		}
		if got := shownOr(shown, m.URI); got != want {
			return viol("freshness", "diagnostics-not-refreshed", fmt.Sprintf("after %s on %s the client shows %s ; a fresh analysis of the latest text gives %s", m.Kind, m.URI, core.Truncate(got, 400), core.Truncate(want, 400)))
		}
		if ld, _, ok := libraryAnalysis(text); ok {
			res.Probes["diagnostics_checked_against_the_library"]++
			if got := shownOr(shown, m.URI); got != ld {
				return viol("freshness", "diagnostics-differ-from-library-analysis", fmt.Sprintf("after %s on %s the client shows %s ; analysis.CheckSource of the same text gives %s", m.Kind, m.URI, core.Truncate(got, 500), core.Truncate(ld, 500)))
			}
		}
		return nil
	case "hover", "definition", "symbols":
		var textp *string
		if t, ok := latest[m.URI]; ok {
			textp = &t
		} else {
			res.Probes["query_on_never_opened_uri"]++
		}
		open, ans := fresh(m.URI, textp, &m)
		if open.crashed {
			return viol("crash-consistency", "crash-on-harmless-text", "fresh server crashes on a text the long-lived server holds: "+open.panicV)
		}
		if rep.crashed {
			if !ans.crashed {
				return viol("crash-consistency", "history-dependent-crash", fmt.Sprintf("%s at (%d,%d) on %s crashes the long-lived server (%s) but not a fresh one", m.Kind, m.Line, m.Char, m.URI, rep.panicV))
			}
			res.Probes["crash_consistent_query"]++
			return nil
		}
		if ans.crashed {
			return viol("crash-consistency", "fresh-server-crashes-only", "query crashes a fresh server only: "+ans.panicV)
		}
		if v := checkPublished(rep.notifs, latest, shown, freshDiags); v != nil {
			return v
		}
		got, want := answerCanon(m.Kind, rep.result), answerCanon(m.Kind, ans.result)
		if textp == nil && rep.result != nil {
			return viol("freshness", "answer-for-unknown-document", fmt.Sprintf("%s on never-opened %s returned %s", m.Kind, m.URI, core.Truncate(got, 300)))
		}
		if got != want {
			return viol("freshness", "stale-or-foreign-answer", fmt.Sprintf("%s at (%d,%d) on %s returned %s ; a fresh server holding only the latest text returns %s", m.Kind, m.Line, m.Char, m.URI, core.Truncate(got, 500), core.Truncate(want, 500)))
		}
		if m.Kind == "symbols" && textp != nil {
			if _, ls, ok := libraryAnalysis(*textp); ok {
				res.Probes["symbols_checked_against_the_library"]++
				if got != ls {
					return viol("freshness", "symbols-differ-from-library-analysis", fmt.Sprintf("documentSymbol on %s returned %s ; the analysis of its latest text declares %s", m.URI, core.Truncate(got, 500), core.Truncate(ls, 500)))
				}
			}
		}
		if updates[m.URI] > 1 {
			res.Probes["query_after_several_updates"]++
		}
		if rep.result != nil {
			res.Probes["non_null_"+m.Kind]++
		}
		return nil
	case "close":
		// not part of the statement: the server may ignore it; it must not crash or publish anything
		if rep.crashed {
			return viol("crash-consistency", "history-dependent-crash", "didClose crashed the server: "+rep.panicV)
		}
		res.Probes["close_then_reopen_with_version_1"]++
		// a server may clear the diagnostics of a closed document; anything else it publishes
		// is judged like any other publication
		var rest [][]byte
		for i, pd := range publishedDiagnostics(rep.notifs) {
			if !(pd.uri == m.URI && pd.diags == "[]") {
				rest = append(rest, rep.notifs[i])
			}
		}
		if v := checkPublished(rest, latest, shown, freshDiags); v != nil {
			return v
		}
		// the client forgets the document until it is opened again
		delete(latest, m.URI)
		delete(shown, m.URI)
		delete(spans, m.URI)
		return nil
	case "init":
		if rep.crashed {
			return viol("crash-consistency", "history-dependent-crash", "initialize crashed: "+rep.panicV)
		}
		return checkPublished(rep.notifs, latest, shown, freshDiags)
	default:
		if rep.crashed {
			return viol("crash-consistency", "history-dependent-crash", "unknown method crashed the server: "+rep.panicV)
		}
		res.Probes["unknown_method"]++
		return checkPublished(rep.notifs, latest, shown, freshDiags)
	}
}

// ---- navigation oracle (absolute)

func rangeOf(v any) (sl, sc, el, ec int, ok bool) {
	m, ok1 := v.(map[string]any)
	if !ok1 {
		return
	}
	s, ok2 := m["start"].(map[string]any)
	e, ok3 := m["end"].(map[string]any)
	if !ok2 || !ok3 {
		return
	}
	f := func(x any) int {
		n, _ := x.(float64)
		return int(n)
	}
	return f(s["line"]), f(s["character"]), f(e["line"]), f(e["character"]), true
}

func navigate(c Case, srv *server, latest map[string]string, spans map[string][]gen.Span, res *Result) {
	u := uris[0]
	sp, ok := spans[u]
	if !ok {
		return
	}
	text := latest[u]
	// the absolute oracle speaks about scripts: a printed program whose text does not parse
	// cleanly (a string literal ending in a backslash swallows what follows it on its line) is
	// not one, and what the server answers inside it is only constrained by the other oracles
	if perr := func() (n int) {
		defer func() {
			if recover() != nil {
				n = 1
			}
		}()
		return len(parser.Parse(text).Errors)
	}(); perr > 0 {
		res.Probes["nav_skipped_printed_text_has_parse_errors"]++
		return
	}
	decl := map[string]gen.Span{}
	for _, s := range sp {
		if s.Kind == "decl" {
			if _, dup := decl[s.Name]; !dup {
				decl[s.Name] = s
			}
		}
	}
	ll := lineLens(text)
	id := 5000
	ask := func(kind string, line, ch int) (reply, bool) {
		id++
		rep := srv.handle(mkReq(Msg{Kind: kind, URI: u, Line: line, Char: ch}, id))
		res.Handled++
		if rep.crashed {
			res.Violation = viol("navigation", "crash-on-valid-script", fmt.Sprintf("%s at (%d,%d) crashes on a valid generated script: %s\n%s", kind, line, ch, rep.panicV, text))
			return rep, false
		}
		return rep, true
	}
	// documentSymbol, absolutely: one symbol per declared name (first declaration), its
	// detail the declared type as written, its range the declared name
	{
		id++
		rep := srv.handle(mkReq(Msg{Kind: "symbols", URI: u}, id))
		res.Handled++
		if rep.crashed {
			res.Violation = viol("navigation", "crash-on-valid-script", "documentSymbol crashes: "+rep.panicV)
			return
		}
		var want []any
		seenDecl := map[string]bool{}
		declType := map[string]string{}
		for _, s2 := range sp {
			if s2.Kind == "type" {
				continue
			}
		}
		// the printer emits a "type" span right before each "decl" span
		for i := 0; i+1 < len(sp); i++ {
			if sp[i].Kind == "type" && sp[i+1].Kind == "decl" && !seenDecl[sp[i+1].Name] {
				seenDecl[sp[i+1].Name] = true
				declType[sp[i+1].Name] = sp[i].Name
				d := sp[i+1]
				rng := map[string]any{"start": map[string]any{"line": float64(d.Line), "character": float64(d.Col)}, "end": map[string]any{"line": float64(d.Line), "character": float64(d.Col + d.Len)}}
				want = append(want, map[string]any{"name": d.Name, "detail": sp[i].Name, "kind": float64(13), "range": rng, "selectionRange": rng})
			}
		}
		got, exp := answerCanon("symbols", rep.result), "symbols:"+strings.Join(sortedList(want), ",")
		res.Probes["nav_symbols_checked_against_the_generator"]++
		if got != exp {
			res.Violation = viol("navigation", "symbols-wrong", fmt.Sprintf("documentSymbol returned %s ; the text declares %s\n%s", core.Truncate(got, 500), core.Truncate(exp, 500), text))
			return
		}
	}
	// positions past the end of a line, as far out as the tokens of the NEXT line sit: a server
	// that folds them onto the following line would answer with that line's variables
	for _, sp2 := range sp {
		if (sp2.Kind != "use" && sp2.Kind != "fn") || sp2.Line == 0 || sp2.Line-1 >= len(ll) {
			continue
		}
		line := sp2.Line - 1
		for _, ch := range []int{ll[line] + 1 + sp2.Col, ll[line] + 1 + sp2.Col + 1, ll[line] + 2 + sp2.Col} {
			inSpan := false
			for _, o := range sp {
				if o.Line == line && (o.Kind == "use" || o.Kind == "fn") && ch >= o.Col && ch <= o.Col+o.Len {
					inSpan = true
				}
			}
			if inSpan {
				continue
			}
			h, ok := ask("hover", line, ch)
			if !ok {
				return
			}
			d, ok := ask("definition", line, ch)
			if !ok {
				return
			}
			res.Probes["nav_positions_past_end_of_line"]++
			if h.result != nil || d.result != nil {
				res.Violation = viol("navigation", "answer-outside-any-use", fmt.Sprintf("at (%d,%d), past the end of the line, hover=%s definition=%s\n%s", line, ch, core.Truncate(canonJSON(h.result), 200), core.Truncate(canonJSON(d.result), 200), text))
				return
			}
		}
	}
	// lines past the end of the file
	for _, line := range []int{len(ll), len(ll) + 1, len(ll) + 7} {
		for _, ch := range []int{0, 3, 9} {
			h, ok := ask("hover", line, ch)
			if !ok {
				return
			}
			if h.result != nil && line > len(ll) {
				res.Violation = viol("navigation", "answer-outside-any-use", fmt.Sprintf("at (%d,%d), past the end of the file, hover=%s\n%s", line, ch, core.Truncate(canonJSON(h.result), 200), text))
				return
			}
		}
	}
	total := 0
	for _, n := range ll {
		total += n + 2
	}
	stride := 1
	if total > 1500 {
		stride = 1 + total/1500
	}
	pi := 0
	for line := 0; line <= len(ll); line++ {
		max := 3
		if line < len(ll) {
			max = ll[line] + 2
		}
		for ch := 0; ch <= max; ch++ {
			// classify the position against the recorded spans of this line
			var in, prev *gen.Span
			boundary := false
			for i := range sp {
				s := &sp[i]
				if s.Line != line || (s.Kind != "use" && s.Kind != "fn") {
					continue
				}
				if s.Kind == "use" {
					if _, declared := decl[s.Name]; !declared {
						continue // the name is declared nowhere: not a use of a declared variable
					}
				}
				if ch >= s.Col && ch < s.Col+s.Len {
					in = s
				} else if ch == s.Col+s.Len {
					boundary = true
					prev = s
				}
			}
			pi++
			if in == nil && (boundary || pi%stride != 0) {
				continue // end of a token: unconstrained by the statement; or sampled out
			}
			h, ok := ask("hover", line, ch)
			if !ok {
				return
			}
			d, ok := ask("definition", line, ch)
			if !ok {
				return
			}
			where := fmt.Sprintf("at (%d,%d)", line, ch)
			checkUse := func(in *gen.Span) *core.Violation {
				hm, _ := h.result.(map[string]any)
				if hm == nil {
					return viol("navigation", "no-hover-on-variable-use", fmt.Sprintf("%s is inside the use of $%s (declared %s) but hover is null\n%s", where, in.Name, in.Type, text))
				}
				sl, sc, el, ec, rok := rangeOf(hm["range"])
				if !rok || sl != in.Line || sc != in.Col || el != in.Line || ec != in.Col+in.Len {
					return viol("navigation", "hover-range-wrong", fmt.Sprintf("%s inside $%s: hover range %s, expected line %d chars [%d,%d)\n%s", where, in.Name, canonJSON(hm["range"]), in.Line, in.Col, in.Col+in.Len, text))
				}
				val := ""
				if cm, ok := hm["contents"].(map[string]any); ok {
					val, _ = cm["value"].(string)
				}
				if !strings.Contains(val, "$"+in.Name) || !strings.Contains(val, in.Type) {
					return viol("navigation", "hover-names-wrong-variable-or-type", fmt.Sprintf("%s inside $%s: hover says %q, expected $%s and type %s\n%s", where, in.Name, val, in.Name, in.Type, text))
				}
				dm, _ := d.result.(map[string]any)
				ds := decl[in.Name]
				if dm == nil {
					return viol("navigation", "no-definition-on-variable-use", fmt.Sprintf("%s inside $%s: definition is null\n%s", where, in.Name, text))
				}
				sl, sc, el, ec, rok = rangeOf(dm["range"])
				if dm["uri"] != u || !rok || sl != ds.Line || sc != ds.Col || el != ds.Line || ec != ds.Col+ds.Len {
					return viol("navigation", "definition-range-wrong", fmt.Sprintf("%s inside $%s: definition %s, expected %s line %d chars [%d,%d)\n%s", where, in.Name, canonJSON(d.result), u, ds.Line, ds.Col, ds.Col+ds.Len, text))
				}
				return nil
			}
			switch {
			case in == nil:
				res.Probes["nav_positions_outside_any_use"]++
				if h.result != nil || d.result != nil {
					res.Violation = viol("navigation", "answer-outside-any-use", fmt.Sprintf("%s is outside every variable use and function name, yet hover=%s definition=%s\n%s", where, core.Truncate(canonJSON(h.result), 200), core.Truncate(canonJSON(d.result), 200), text))
					return
				}
			case in.Kind == "use":
				res.Probes["nav_positions_inside_variable_use"]++
				v := checkUse(in)
				if v != nil && prev != nil && prev.Kind == "use" && checkUse(prev) == nil {
					// $a$b: the position between the two is the end of one use and the start of the
					// other; a position is a gap between characters, either neighbour is an answer
					res.Probes["nav_gap_between_two_adjacent_uses_answered_with_the_left_one"]++
					v = nil
				}
				if v != nil {
					res.Violation = v
					return
				}
			default: // built-in function name
				res.Probes["nav_positions_inside_function_name"]++
				hm, _ := h.result.(map[string]any)
				if hm == nil {
					res.Violation = viol("navigation", "no-hover-on-function-name", fmt.Sprintf("%s is inside the name of built-in %s (%s) but hover is null\n%s", where, in.Name, in.Ctx, text))
					return
				}
				val := ""
				if cm, ok := hm["contents"].(map[string]any); ok {
					val, _ = cm["value"].(string)
				}
				if !strings.Contains(val, in.Name) {
					res.Violation = viol("navigation", "hover-shows-wrong-function", fmt.Sprintf("%s inside %s: hover says %q\n%s", where, in.Name, val, text))
					return
				}
				if d.result != nil {
					res.Violation = viol("navigation", "definition-on-function-name", fmt.Sprintf("%s inside %s: definition returned %s\n%s", where, in.Name, canonJSON(d.result), text))
					return
				}
			}
		}
	}
}
