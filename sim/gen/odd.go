//go:build verif

package gen

import (
	"math/rand/v2"
	"strings"
)

// OddNames renames, consistently through the script and its inputs, two accounts and two
// assets of a generated case into values that only a VARIABLE can carry (the value of an
// account or asset variable is an arbitrary string: nothing validates it), chosen so that
// joining account and asset with a separator is ambiguous:
//
//	(X, Y<sep>Z)  and  (X<sep>Y, Z)
//
// Every literal use of a renamed name becomes a use of a new plain variable holding the odd
// value. Whatever identifies an (account, asset) pair by a joined string - a "seen" set, a
// memo, a de-duplication key - confuses the two pairs; a store that answers exactly what is
// asked then shows a balance that was never requested. The renaming is injective, so the
// result is the same case up to names.
func OddNames(r *rand.Rand, in PI) PI {
	out := in.Clone()
	// accounts and assets the case knows about, in a deterministic order
	accSet, astSet := map[string]bool{}, map[string]bool{}
	for a, m := range out.In.Balances {
		if a != "world" {
			accSet[a] = true
		}
		for as := range m {
			astSet[as] = true
		}
	}
	out.Prog.WalkExprs(func(e *Expr) {
		switch e.K {
		case "acc":
			if e.S != "world" {
				accSet[e.S] = true
			}
		case "asset":
			astSet[e.S] = true
		}
	})
	types := map[string]string{}
	for _, v := range out.Prog.Vars {
		types[v.Name] = v.Type
	}
	for name, val := range out.In.Vars {
		switch types[name] {
		case "account":
			if val != "world" {
				accSet[val] = true
			}
		case "asset":
			astSet[val] = true
		case "monetary":
			if p := strings.SplitN(val, " ", 2); len(p) == 2 {
				astSet[p[0]] = true
			}
		}
	}
	accs, asts := sortedKeys(accSet), sortedKeys(astSet)
	if len(accs) < 2 || len(asts) < 2 {
		return in
	}
	r.Shuffle(len(accs), func(i, j int) { accs[i], accs[j] = accs[j], accs[i] })
	r.Shuffle(len(asts), func(i, j int) { asts[i], asts[j] = asts[j], asts[i] })
	sep := []string{"/", "/", ":", "|", ",", "-", "_", ".", "#"}[r.IntN(9)]
	x := []string{"a", "b", "users:1", "x", "clients:zoé", "users.001", "sp ace"}[r.IntN(7)]
	y := []string{"USD", "EUR", "COIN"}[r.IntN(3)]
	z := []string{"2", "C", "6", "USD", "usd"}[r.IntN(5)]
	accMap := map[string]string{accs[0]: x, accs[1]: x + sep + y}
	astMap := map[string]string{asts[0]: y + sep + z, asts[1]: z}
	// injective: a name that is not renamed must not coincide with a new name
	for _, a := range accs[2:] {
		if a == x || a == x+sep+y {
			return in
		}
	}
	for _, a := range asts[2:] {
		if a == y+sep+z || a == z {
			return in
		}
	}
	ren := func(m map[string]string, s string) string {
		if n, ok := m[s]; ok {
			return n
		}
		return s
	}
	// inputs
	nb := map[string]map[string]string{}
	for a, m := range out.In.Balances {
		mm := map[string]string{}
		for as, v := range m {
			mm[ren(astMap, as)] = v
		}
		nb[ren(accMap, a)] = mm
	}
	out.In.Balances = nb
	nm := map[string]map[string]string{}
	for a, m := range out.In.Meta {
		mm := map[string]string{}
		for k, v := range m {
			// a metadata value read into an account, asset or monetary variable
			if n, ok := accMap[v]; ok {
				v = n
			} else if n, ok := astMap[v]; ok {
				v = n
			} else if p := strings.SplitN(v, " ", 2); len(p) == 2 {
				if n, ok := astMap[p[0]]; ok {
					v = n + " " + p[1]
				}
			}
			mm[k] = v
		}
		nm[ren(accMap, a)] = mm
	}
	out.In.Meta = nm
	for name, val := range out.In.Vars {
		switch types[name] {
		case "account":
			out.In.Vars[name] = ren(accMap, val)
		case "asset":
			out.In.Vars[name] = ren(astMap, val)
		case "monetary":
			if p := strings.SplitN(val, " ", 2); len(p) == 2 {
				out.In.Vars[name] = ren(astMap, p[0]) + " " + p[1]
			}
		}
	}
	// script: literals of renamed names become uses of new plain variables, declared first
	// (origins of later variables may use them)
	newVar := map[string]string{}
	var decls []VarDecl
	use := func(t, old, val string) string {
		k := t + "\x00" + old
		if n, ok := newVar[k]; ok {
			return n
		}
		n := "odd" + t[:3] + string(rune('0'+len(newVar)))
		newVar[k] = n
		decls = append(decls, VarDecl{Type: t, Name: n})
		out.In.Vars[n] = val
		return n
	}
	out.Prog.WalkExprs(func(e *Expr) {
		switch e.K {
		case "acc":
			if n, ok := accMap[e.S]; ok {
				e.K, e.S = "var", use("account", e.S, n)
			}
		case "asset":
			if n, ok := astMap[e.S]; ok {
				e.K, e.S = "var", use("asset", e.S, n)
			}
		}
	})
	out.Prog.Vars = append(decls, out.Prog.Vars...)
	return out
}
