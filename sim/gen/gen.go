//go:build verif

package gen

import (
	"fmt"
	"math/big"
	"math/rand/v2"
	"strings"
)

const FlagOverdraft = "experimental-overdraft-function"

// Profile is the swarm configuration of one generated case: which constructs
// are enabled and how often. Draw one per case with DrawProfile.
type Profile struct {
	MaxStmts  int
	MaxDepth  int
	MaxVars   int
	NAccounts int // size of the account pool (besides world)

	Safe bool // only constructs that are guaranteed to execute successfully (C12 baseline)

	POrigin     float64 // share of variables with an origin
	PBalance    float64 // among origins
	POverdraft  float64
	PMeta       float64
	PVarUse     float64 // use a variable where a literal would do
	PSendAll    float64
	PSave       float64
	PCall       float64
	PWorld      float64 // @world where an account may stand
	PAllotSrc   float64
	PSeqSrc     float64
	PCapSrc     float64
	PBndSrc     float64
	PUnbSrc     float64
	PAllotDst   float64
	PSeqDst     float64
	PKept       float64
	PInfix      float64
	PBigNum     float64 // numbers beyond 2^64 in variables and balances
	PNegBal     float64
	PZeroBal    float64
	PWrongAsset float64 // deliberately mismatched asset in a cap/bound (never in Safe)
	PFlag       float64 // overdraft flag given even when unused
	PComment    float64
	PNonASCII   float64
	PCompact    float64
	Wide        bool // dozens of entries in in-order lists and allotments
	LongExpr    bool // arithmetic chains of 60-330 operators (left-deep: as deep as they are long)
}

func DrawProfile(r *rand.Rand) Profile {
	f := func(choices ...float64) float64 { return choices[r.IntN(len(choices))] }
	p := drawProfile(r, f)
	// size strata: now and then a long script, a deep tree or many variables - anything
	// that only goes wrong beyond a size threshold needs inputs beyond it
	switch r.IntN(80) {
	case 0:
		p.MaxStmts = 10 + r.IntN(40)
	case 1:
		p.MaxDepth = 5 + r.IntN(4)
		p.PSeqSrc, p.PSeqDst, p.PAllotSrc, p.PAllotDst = 0.5, 0.4, 0.3, 0.3
	case 2:
		p.MaxVars = 15 + r.IntN(25)
		p.MaxStmts = 6 + r.IntN(10)
	case 3:
		p.Wide = true
	case 4:
		// dozens of accounts: one balance query then carries far more pairs than usual
		p.NAccounts = 20 + r.IntN(30)
		p.MaxStmts = 10 + r.IntN(30)
	case 5:
		// long arithmetic: anything that counts operators or nesting, per run or per process
		p.LongExpr = true
		p.PInfix = 1
		p.PVarUse = 0.1
	}
	return p
}

func drawProfile(r *rand.Rand, f func(...float64) float64) Profile {
	return Profile{
		MaxStmts:    1 + r.IntN(6),
		MaxDepth:    1 + r.IntN(3),
		MaxVars:     r.IntN(7),
		NAccounts:   2 + r.IntN(8),
		POrigin:     f(0, 0.2, 0.5, 0.8),
		PBalance:    f(0.3, 0.6, 1),
		POverdraft:  f(0, 0.2, 0.5),
		PMeta:       f(0, 0.3, 0.6),
		PVarUse:     f(0.1, 0.4, 0.8),
		PSendAll:    f(0, 0.15, 0.4),
		PSave:       f(0, 0.15, 0.4),
		PCall:       f(0, 0.1, 0.3),
		PWorld:      f(0, 0.1, 0.3),
		PAllotSrc:   f(0, 0.15, 0.3),
		PSeqSrc:     f(0.1, 0.3, 0.5),
		PCapSrc:     f(0, 0.15, 0.3),
		PBndSrc:     f(0, 0.15, 0.3),
		PUnbSrc:     f(0, 0.1, 0.25),
		PAllotDst:   f(0, 0.15, 0.3),
		PSeqDst:     f(0, 0.15, 0.3),
		PKept:       f(0, 0.2, 0.4),
		PInfix:      f(0, 0.1, 0.3),
		PBigNum:     f(0, 0.05, 0.2),
		PNegBal:     f(0, 0.1, 0.3),
		PZeroBal:    f(0.1, 0.3),
		PWrongAsset: f(0, 0, 0.05),
		PFlag:       f(0, 0.5, 1),
		PComment:    f(0, 0.2),
		PNonASCII:   f(0, 0.3),
		PCompact:    f(0, 0.3),
	}
}

var AccountPool = []string{"a", "b", "c", "x:y", "x", "users:001", "d", "2024:fees", "-x-", "007",
	"orgs:0123456789abcdef0123456789abcdef:users:fedcba9876543210fedcba9876543210:main",
	"orgs:0123456789abcdef0123456789abcdef:users:fedcba9876543210fedcba9876543210:main:sub"}
var AssetPool = []string{"USD", "EUR/2", "COIN", "EUR"}
var KeyPool = []string{"k", "fee", "owner"}

// VarInfo is what the generator knows about a declared variable.
type VarInfo struct {
	Name  string
	Type  string
	Value string // the text the interpreter will parse (for origins: what the store holds)
	Asset string // monetary: its asset
	Amt   *big.Int
	Known bool // false when the value cannot be produced (negative balance(), missing meta ...)
}

type G struct {
	R     *rand.Rand
	P     Profile
	Accts []string
	Vars  []VarInfo
	In    Inputs
	Prog  Program
	nvar  int
	// Notes about what was generated, used by engines for probes / domain rules.
	UsesOverdraftFn bool
}

func (g *G) chance(p float64) bool { return g.R.Float64() < p }

func (g *G) pick(xs []string) string { return xs[g.R.IntN(len(xs))] }

func bigTwo(n uint) *big.Int { return new(big.Int).Lsh(big.NewInt(1), n) }

// smallNum returns a non-negative amount for literals (always far below 2^62:
// the parser keeps literal numbers in an int).
func (g *G) smallNum() int64 {
	switch g.R.IntN(10) {
	case 0:
		return 0
	case 1:
		return 1
	case 2:
		return int64(g.R.IntN(5))
	default:
		return int64(g.R.IntN(300))
	}
}

func (g *G) balanceValue() *big.Int {
	switch {
	case g.chance(g.P.PZeroBal):
		return big.NewInt(0)
	case g.chance(g.P.PNegBal):
		return big.NewInt(-int64(1 + g.R.IntN(200)))
	case g.chance(g.P.PBigNum):
		x := bigTwo(64 + uint(g.R.IntN(40)))
		return x.Add(x, big.NewInt(int64(g.R.IntN(1000))))
	default:
		return big.NewInt(int64(g.R.IntN(400)))
	}
}

func (g *G) varsOf(t string) []VarInfo {
	var out []VarInfo
	for _, v := range g.Vars {
		if v.Type == t && v.Known {
			out = append(out, v)
		}
	}
	return out
}

func (g *G) freshName(t string) string {
	pre := map[string]string{"account": "acc", "asset": "ast", "number": "num", "monetary": "mon", "portion": "por", "string": "str"}[t]
	if pre == "" {
		pre = "v"
	}
	g.nvar++
	return fmt.Sprintf("%s%d", pre, g.nvar)
}

// ---- expressions by type; each returns the expression and what it evaluates to

func (g *G) accountExpr(allowWorld bool) (*Expr, string) {
	if vs := g.varsOf("account"); len(vs) > 0 && g.chance(g.P.PVarUse) {
		var ok []VarInfo
		for _, v := range vs {
			if allowWorld || v.Value != "world" {
				ok = append(ok, v)
			}
		}
		if len(ok) > 0 {
			v := ok[g.R.IntN(len(ok))]
			return Var(v.Name), v.Value
		}
	}
	if allowWorld && g.chance(g.P.PWorld) {
		return Acc("world"), "world"
	}
	a := g.pick(g.Accts)
	return Acc(a), a
}

func (g *G) assetExprFor(asset string) *Expr {
	if g.chance(g.P.PVarUse) {
		for _, v := range g.varsOf("asset") {
			if v.Value == asset {
				return Var(v.Name)
			}
		}
	}
	return Asset(asset)
}

// numberExpr returns a number expression with a known non-negative value.
func (g *G) numberExpr() (*Expr, *big.Int) {
	if g.chance(g.P.PVarUse) {
		var ok []VarInfo
		for _, v := range g.varsOf("number") {
			if v.Amt != nil && v.Amt.Sign() >= 0 {
				ok = append(ok, v)
			}
		}
		if len(ok) > 0 {
			v := ok[g.R.IntN(len(ok))]
			return Var(v.Name), new(big.Int).Set(v.Amt)
		}
	}
	if g.P.LongExpr && g.chance(0.5) {
		total := g.smallNum()
		e := Num(fmt.Sprint(total))
		for n := 60 + g.R.IntN(270); n > 0; n-- {
			b := int64(g.R.IntN(4))
			if total >= b && g.chance(0.45) {
				e = &Expr{K: "sub", L: e, R: Num(fmt.Sprint(b))}
				total -= b
			} else {
				e = &Expr{K: "add", L: e, R: Num(fmt.Sprint(b))}
				total += b
			}
		}
		return e, big.NewInt(total)
	}
	if g.chance(g.P.PInfix) {
		a, b := g.smallNum(), g.smallNum()
		if g.chance(0.5) {
			return &Expr{K: "add", L: Num(fmt.Sprint(a)), R: Num(fmt.Sprint(b))}, big.NewInt(a + b)
		}
		if a < b {
			a, b = b, a
		}
		return &Expr{K: "sub", L: Num(fmt.Sprint(a)), R: Num(fmt.Sprint(b))}, big.NewInt(a - b)
	}
	if !g.P.Safe && g.chance(g.P.PBigNum*0.15) {
		// a literal beyond the machine word, in the script text itself
		v := bigTwo(63 + uint(g.R.IntN(8)))
		return Num(v.String()), v
	}
	n := g.smallNum()
	return Num(fmt.Sprint(n)), big.NewInt(n)
}

// monetaryExpr returns a monetary expression of the given asset with a known
// non-negative amount.
func (g *G) monetaryExpr(asset string) (*Expr, *big.Int) {
	if g.chance(g.P.PVarUse) {
		var ok []VarInfo
		for _, v := range g.varsOf("monetary") {
			if v.Asset == asset && v.Amt != nil && v.Amt.Sign() >= 0 {
				ok = append(ok, v)
			}
		}
		if len(ok) > 0 {
			v := ok[g.R.IntN(len(ok))]
			if g.chance(g.P.PInfix) {
				n, nv := g.numberExpr()
				e := &Expr{K: "add", L: Var(v.Name), R: Mon(g.assetExprFor(asset), n)}
				return e, new(big.Int).Add(v.Amt, nv)
			}
			return Var(v.Name), new(big.Int).Set(v.Amt)
		}
	}
	n, nv := g.numberExpr()
	return Mon(g.assetExprFor(asset), n), nv
}

func (g *G) otherAsset(asset string) string {
	for {
		a := g.pick(AssetPool)
		if a != asset {
			return a
		}
	}
}

// capExpr is a monetary of the statement's asset, or (rarely, never in Safe
// mode) of another asset.
func (g *G) capExpr(asset string) *Expr {
	if !g.P.Safe && g.chance(0.04) {
		// a negative cap is legal (it is clipped to zero)
		return Mon(g.assetExprFor(asset), Num(fmt.Sprint(-1-g.R.IntN(20))))
	}
	if !g.P.Safe && g.chance(g.P.PWrongAsset) {
		e, _ := g.monetaryExpr(g.otherAsset(asset))
		return e
	}
	e, _ := g.monetaryExpr(asset)
	return e
}

func (g *G) stringExpr() *Expr {
	if vs := g.varsOf("string"); len(vs) > 0 && g.chance(g.P.PVarUse) {
		return Var(vs[g.R.IntN(len(vs))].Name)
	}
	return Str(g.stringText())
}

func (g *G) stringText() string {
	if g.chance(g.P.PNonASCII) {
		return g.pick([]string{"café", "日本", "naïve key", "ключ", "€uro"})
	}
	if g.chance(0.06) {
		// a backslash is an ordinary character of a string literal, \" keeps the literal open; a
		// literal ending in a backslash is well formed when no other quote follows on its line
		// (a literal ENDING in a backslash is only well formed as the last thing on its line that
		// has a quote in it: genStmt places those)
		return g.pick([]string{`a\b`, `say \"hi\"`, `\\x`, `\n`})
	}
	return g.pick([]string{"k", "fee", "owner", "hello world", "", "a-b_c"})
}

func (g *G) anyExpr() *Expr {
	switch g.R.IntN(6) {
	case 0:
		e, _ := g.accountExpr(true)
		return e
	case 1:
		return g.assetExprFor(g.pick(AssetPool))
	case 2:
		e, _ := g.numberExpr()
		return e
	case 3:
		e, _ := g.monetaryExpr(g.pick(AssetPool))
		return e
	case 4:
		return g.portionExpr()
	default:
		return g.stringExpr()
	}
}

func (g *G) portionExpr() *Expr {
	if vs := g.varsOf("portion"); len(vs) > 0 && g.chance(g.P.PVarUse) {
		return Var(vs[g.R.IntN(len(vs))].Name)
	}
	return Por(g.pick([]string{"1/2", "1/3", "25%", "100%", "0%", "3/4", "12.5%"}))
}

// ---- portions

type part struct{ num, den int64 }

// partition returns k parts over one denominator that sum to exactly 1.
func (g *G) partition(k int) []part {
	den := []int64{2, 3, 4, 5, 8, 10, 100, 1000}[g.R.IntN(8)]
	cuts := make([]int64, k-1)
	for i := range cuts {
		cuts[i] = int64(g.R.IntN(int(den) + 1))
	}
	// sort cuts
	for i := range cuts {
		for j := i + 1; j < len(cuts); j++ {
			if cuts[j] < cuts[i] {
				cuts[i], cuts[j] = cuts[j], cuts[i]
			}
		}
	}
	parts := make([]part, k)
	prev := int64(0)
	for i := 0; i < k-1; i++ {
		parts[i] = part{cuts[i] - prev, den}
		prev = cuts[i]
	}
	parts[k-1] = part{den - prev, den}
	return parts
}

// litPortion renders a part as a literal the parser accepts without tripping
// its own defects (no leading zero in percentages, small numbers only).
func (g *G) litPortion(p part) string {
	if (100*p.num)%p.den == 0 && g.chance(0.4) {
		pc := 100 * p.num / p.den
		return fmt.Sprintf("%d%%", pc)
	}
	if (1000*p.num)%p.den == 0 && g.chance(0.2) {
		pm := 1000 * p.num / p.den
		if pm >= 10 && pm%10 != 0 {
			return fmt.Sprintf("%d.%d%%", pm/10, pm%10)
		}
	}
	if g.chance(0.1) {
		return fmt.Sprintf("%d / %d", p.num, p.den)
	}
	return fmt.Sprintf("%d/%d", p.num, p.den)
}

func (g *G) varPortionText(p part) string {
	if (100*p.num)%p.den == 0 && g.chance(0.4) {
		return fmt.Sprintf("%d%%", 100*p.num/p.den)
	}
	if (1000*p.num)%p.den == 0 && g.chance(0.3) {
		pm := 1000 * p.num / p.den
		return fmt.Sprintf("%d.%d%%", pm/10, pm%10)
	}
	return fmt.Sprintf("%d/%d", p.num, p.den)
}

// allotments builds k allotment heads that sum to one: literals, portion
// variables declared on the fly, and optionally a trailing `remaining`.
func (g *G) allotments(k int) []Allot {
	parts := g.partition(k)
	out := make([]Allot, k)
	// `remaining` usually closes the list; the interpreter accepts it anywhere
	remAt := -1
	if g.chance(0.5) {
		remAt = k - 1
		if g.chance(0.25) {
			remAt = g.R.IntN(k)
		}
	}
	// the grammar accepts `remaining` more than once (the checker only warns that it is not
	// last): the earlier one then stands for nothing, the last one for the rest
	remAlso := -1
	if remAt >= 0 && k >= 3 && !g.P.Safe && g.chance(0.08) {
		remAlso = g.R.IntN(k)
	}
	for i, p := range parts {
		switch {
		case i == remAt || i == remAlso:
			out[i] = Allot{K: "rem"}
		case g.chance(g.P.PVarUse*0.5) && len(g.Prog.Stmts) >= 0 && g.canDeclare():
			name := g.declare("portion", g.varPortionText(p), "", nil)
			out[i] = Allot{K: "var", S: name}
		default:
			out[i] = Allot{K: "lit", S: g.litPortion(p)}
		}
	}
	return out
}

func (g *G) canDeclare() bool { return len(g.Prog.Vars) < g.P.MaxVars+4 }

// declare adds a plain (origin-less) variable with the given value.
func (g *G) declare(t, value, asset string, amt *big.Int) string {
	name := g.freshName(t)
	g.Prog.Vars = append(g.Prog.Vars, VarDecl{Type: t, Name: name})
	g.In.Vars[name] = value
	g.Vars = append(g.Vars, VarInfo{Name: name, Type: t, Value: value, Asset: asset, Amt: amt, Known: true})
	return name
}

// ---- sources

func (g *G) ampleLeaf() Src {
	if g.chance(0.5) {
		return Src{K: "acc", E: Acc("world")}
	}
	e, _ := g.accountExpr(false)
	return Src{K: "unb", E: e}
}

// source generates a source tree. ample: the tree must be able to provide any
// amount (ends in @world / unbounded overdraft) — required inside allotments
// in Safe mode and at top level of a Safe fixed-amount send.
func (g *G) source(asset string, depth int, sendAll bool, ample bool) Src {
	if depth <= 0 {
		if ample {
			return g.ampleLeaf()
		}
		return g.leafSource(asset, sendAll)
	}
	w := []float64{
		1 - (g.P.PSeqSrc+g.P.PCapSrc+g.P.PAllotSrc)*0.8, // leaf
		g.P.PSeqSrc,
		g.P.PCapSrc,
		g.P.PAllotSrc,
	}
	if sendAll && g.P.Safe {
		w[3] = 0
	}
	if ample {
		w[2] = 0 // a capped source is never ample
	}
	if w[0] < 0.1 {
		w[0] = 0.1
	}
	switch weighted(g.R, w) {
	case 1:
		n := []int{0, 1, 2, 2, 3, 3, 4, 5}[g.R.IntN(8)]
		if g.P.Wide && g.chance(0.5) {
			n = 8 + g.R.IntN(30)
			depth = 1
		}
		if ample && n == 0 {
			n = 1
		}
		if n == 0 && !g.chance(0.2) {
			n = 2
		}
		s := Src{K: "seq"}
		for i := 0; i < n; i++ {
			last := i == n-1
			s.Subs = append(s.Subs, g.source(asset, depth-1, sendAll, ample && last))
		}
		return s
	case 2:
		// inside a cap the default (bounded) evaluation applies even in send-all
		return Src{K: "cap", E: g.capExpr(asset), Subs: []Src{g.source(asset, depth-1, false, false)}}
	case 3:
		k := []int{1, 2, 2, 3, 3, 3, 4, 5, 6, 9 + g.R.IntN(10)}[g.R.IntN(10)]
		al := g.allotments(k)
		s := Src{K: "allot"}
		for i := 0; i < k; i++ {
			s.Items = append(s.Items, SrcItem{A: al[i], From: g.source(asset, depth-1, false, g.P.Safe || ample || g.chance(0.6))})
		}
		return s
	default:
		if ample {
			return g.ampleLeaf()
		}
		return g.leafSource(asset, sendAll)
	}
}

func (g *G) leafSource(asset string, sendAll bool) Src {
	w := []float64{1, g.P.PBndSrc, g.P.PUnbSrc}
	if sendAll && g.P.Safe {
		w[2] = 0
	}
	switch weighted(g.R, w) {
	case 1:
		e, _ := g.accountExpr(false)
		return Src{K: "bnd", E: e, B: g.capExpr(asset)}
	case 2:
		e, _ := g.accountExpr(!g.P.Safe)
		return Src{K: "unb", E: e}
	default:
		e, _ := g.accountExpr(!(sendAll && g.P.Safe))
		return Src{K: "acc", E: e}
	}
}

// ---- destinations

func (g *G) kod(asset string, depth int) KoD {
	if g.chance(g.P.PKept) {
		return KoD{Kept: true}
	}
	d := g.destination(asset, depth)
	return KoD{D: &d}
}

func (g *G) destination(asset string, depth int) Dst {
	if depth <= 0 {
		e, _ := g.accountExpr(true)
		return Dst{K: "acc", E: e}
	}
	w := []float64{1 - (g.P.PSeqDst+g.P.PAllotDst)*0.8, g.P.PSeqDst, g.P.PAllotDst}
	if w[0] < 0.1 {
		w[0] = 0.1
	}
	switch weighted(g.R, w) {
	case 1:
		d := Dst{K: "seq"}
		n := []int{0, 1, 1, 2, 2, 3, 3, 4, 5, 6}[g.R.IntN(10)]
		if g.P.Wide && g.chance(0.5) {
			n = 8 + g.R.IntN(30)
			depth = 1
		}
		for i := 0; i < n; i++ {
			d.Clauses = append(d.Clauses, DstClause{Cap: *g.capExpr(asset), To: g.kod(asset, depth-1)})
		}
		rem := g.kod(asset, depth-1)
		d.Rem = &rem
		return d
	case 2:
		k := []int{1, 2, 2, 3, 3, 3, 4, 5, 6, 9 + g.R.IntN(10)}[g.R.IntN(10)]
		al := g.allotments(k)
		d := Dst{K: "allot"}
		for i := 0; i < k; i++ {
			d.Items = append(d.Items, DstItem{A: al[i], To: g.kod(asset, depth-1)})
		}
		return d
	default:
		e, _ := g.accountExpr(true)
		return Dst{K: "acc", E: e}
	}
}

func weighted(r *rand.Rand, w []float64) int {
	t := 0.0
	for _, x := range w {
		if x > 0 {
			t += x
		}
	}
	v := r.Float64() * t
	for i, x := range w {
		if x <= 0 {
			continue
		}
		if v < x {
			return i
		}
		v -= x
	}
	return 0
}

// ---- variables

func (g *G) genVars() {
	n := 0
	if g.P.MaxVars > 0 {
		n = g.R.IntN(g.P.MaxVars + 1)
	}
	types := []string{"account", "asset", "number", "monetary", "portion", "string"}
	for i := 0; i < n; i++ {
		t := types[weighted(g.R, []float64{3, 1.5, 2, 3, 1, 1})]
		if g.chance(g.P.POrigin) {
			g.genOriginVar(t)
		} else {
			g.genPlainVar(t)
		}
	}
}

func (g *G) genPlainVar(t string) {
	switch t {
	case "account":
		a := g.pick(g.Accts)
		if !g.P.Safe && g.chance(g.P.PWorld) {
			a = "world"
		}
		g.declare(t, a, "", nil)
	case "asset":
		g.declare(t, g.pick(AssetPool), "", nil)
	case "number":
		v := big.NewInt(g.smallNum())
		if g.chance(g.P.PBigNum) {
			v = bigTwo(64 + uint(g.R.IntN(30)))
		}
		g.declare(t, v.String(), "", v)
	case "monetary":
		a := g.pick(AssetPool)
		v := big.NewInt(g.smallNum())
		if g.chance(g.P.PBigNum) {
			v = bigTwo(64 + uint(g.R.IntN(30)))
		}
		g.declare(t, a+" "+v.String(), a, v)
	case "portion":
		p := g.partition(2)[0]
		g.declare(t, g.varPortionText(p), "", nil)
	case "string":
		g.declare(t, g.stringText(), "", nil)
	}
}

func (g *G) truthBalance(acc, asset string) *big.Int {
	if m, ok := g.In.Balances[acc]; ok {
		if s, ok := m[asset]; ok {
			v, _ := new(big.Int).SetString(s, 10)
			return v
		}
	}
	return big.NewInt(0)
}

func (g *G) setTruthBalance(acc, asset string, v *big.Int) {
	if g.In.Balances[acc] == nil {
		g.In.Balances[acc] = map[string]string{}
	}
	g.In.Balances[acc][asset] = v.String()
}

func (g *G) genOriginVar(t string) {
	w := []float64{g.P.PBalance, g.P.POverdraft, g.P.PMeta}
	if t != "monetary" {
		w = []float64{0, 0, 1}
		if g.P.PMeta == 0 {
			g.genPlainVar(t)
			return
		}
	}
	which := weighted(g.R, w)
	switch which {
	case 0, 1:
		fn := "balance"
		if which == 1 {
			fn = "overdraft"
		}
		accE, acc := g.accountExpr(!g.P.Safe && g.chance(0.3))
		asset := g.pick(AssetPool)
		astE := g.assetExprFor(asset)
		bal := g.truthBalance(acc, asset)
		if acc == "world" {
			bal = big.NewInt(0) // never requested; reads 0
		}
		name := g.freshName(t)
		declared := t
		if g.chance(0.12) {
			// `number $n = balance(...)` is accepted; the variable is then never used by the generator
			declared = g.pick([]string{"number", "string", "account"})
		}
		g.Prog.Vars = append(g.Prog.Vars, VarDecl{Type: declared, Name: name, Fn: fn, Args: []Expr{*accE, *astE}})
		vi := VarInfo{Name: name, Type: t, Asset: asset, Known: declared == t}
		if fn == "balance" {
			if bal.Sign() < 0 {
				if g.P.Safe {
					g.setTruthBalance(acc, asset, big.NewInt(int64(g.R.IntN(300))))
					bal = g.truthBalance(acc, asset)
				} else {
					vi.Known = false
				}
			}
			vi.Amt = new(big.Int).Set(bal)
		} else {
			g.UsesOverdraftFn = true
			if bal.Sign() > 0 {
				vi.Amt = big.NewInt(0)
			} else {
				vi.Amt = new(big.Int).Neg(bal)
			}
		}
		vi.Value = asset + " " + vi.Amt.String()
		g.Vars = append(g.Vars, vi)
	default:
		accE, acc := g.accountExpr(false)
		key := g.pick(KeyPool) + "_" + t
		name := g.freshName(t)
		g.Prog.Vars = append(g.Prog.Vars, VarDecl{Type: t, Name: name, Fn: "meta", Args: []Expr{*accE, *Str(key)}})
		vi := VarInfo{Name: name, Type: t, Known: true}
		switch t {
		case "account":
			vi.Value = g.pick(g.Accts)
		case "asset":
			vi.Value = g.pick(AssetPool)
		case "number":
			vi.Amt = big.NewInt(g.smallNum())
			vi.Value = vi.Amt.String()
		case "monetary":
			vi.Asset = g.pick(AssetPool)
			vi.Amt = big.NewInt(g.smallNum())
			vi.Value = vi.Asset + " " + vi.Amt.String()
		case "portion":
			vi.Value = g.varPortionText(g.partition(2)[0])
		default:
			vi.Value = g.stringText()
		}
		if !g.P.Safe && g.chance(0.1) {
			vi.Known = false // metadata absent from the store
			if g.chance(0.5) {
				// ... but present under other spellings of the key: keys are exact
				if g.In.Meta[acc] == nil {
					g.In.Meta[acc] = map[string]string{}
				}
				if _, exact := g.In.Meta[acc][key]; !exact {
					g.In.Meta[acc][strings.ToUpper(key)] = vi.Value
					g.In.Meta[acc][strings.ToUpper(key[:1])+key[1:]] = vi.Value + "9"
				}
			}
		} else {
			if g.In.Meta[acc] == nil {
				g.In.Meta[acc] = map[string]string{}
			}
			if prev, ok := g.In.Meta[acc][key]; ok {
				// same (account, key) already holds a value of this type: reuse it
				vi.Value = prev
				vi.Amt, vi.Asset = nil, ""
				switch t {
				case "number":
					vi.Amt, _ = new(big.Int).SetString(prev, 10)
				case "monetary":
					parts := strings.Split(prev, " ")
					vi.Asset = parts[0]
					vi.Amt, _ = new(big.Int).SetString(parts[1], 10)
				}
			} else {
				g.In.Meta[acc][key] = vi.Value
			}
		}
		g.Vars = append(g.Vars, vi)
	}
	if g.chance(0.1) {
		// the caller's variables also hold an entry named like this computed variable (a document
		// shared between scripts): the value of a variable with an origin is its origin's
		last := g.Prog.Vars[len(g.Prog.Vars)-1]
		g.In.Vars[last.Name] = map[string]string{"account": "zz:supplied", "asset": "ZZZ", "number": "41", "monetary": "ZZZ 41", "portion": "1/7", "string": "supplied"}[last.Type]
		if g.In.Vars[last.Name] == "" {
			g.In.Vars[last.Name] = "supplied"
		}
	}
}

// ---- statements

func (g *G) genStmt() Stmt {
	w := []float64{1, g.P.PSave, g.P.PCall}
	var s Stmt
	switch weighted(g.R, w) {
	case 1:
		asset := g.pick(AssetPool)
		acc, _ := g.accountExpr(!g.P.Safe && g.chance(0.2))
		if g.chance(0.3) {
			s = Stmt{K: "save", All: true, Amt: g.assetExprFor(asset), Acc: acc}
		} else {
			m, _ := g.monetaryExpr(asset)
			s = Stmt{K: "save", Amt: m, Acc: acc}
		}
	case 2:
		if g.chance(0.5) {
			s = Stmt{K: "call", Fn: "set_tx_meta", Args: []Expr{*g.stringExpr(), *g.anyExpr()}}
			if s.Args[0].K != "str" || !strings.Contains(s.Args[0].S, `\`) {
				if g.chance(0.05) {
					// the value is the last literal of its line: it may end in a backslash
					s.Args[1] = *Str(g.pick([]string{`dir\`, `\\`, `C:\tmp\`}))
				}
			}
		} else {
			a, _ := g.accountExpr(true)
			s = Stmt{K: "call", Fn: "set_account_meta", Args: []Expr{*a, *g.stringExpr(), *g.anyExpr()}}
		}
	default:
		asset := g.pick(AssetPool)
		depth := g.R.IntN(g.P.MaxDepth + 1)
		if g.chance(g.P.PSendAll) {
			src := g.source(asset, depth, true, false)
			dst := g.destination(asset, g.R.IntN(g.P.MaxDepth+1))
			s = Stmt{K: "send", All: true, Amt: g.assetExprFor(asset), Src: &src, Dst: &dst}
		} else {
			m, _ := g.monetaryExpr(asset)
			src := g.source(asset, depth, false, g.P.Safe || g.chance(0.35))
			dst := g.destination(asset, g.R.IntN(g.P.MaxDepth+1))
			s = Stmt{K: "send", Amt: m, Src: &src, Dst: &dst}
		}
	}
	if g.chance(g.P.PComment) {
		if g.chance(g.P.PNonASCII) {
			s.Comment = g.pick([]string{"paiement reçu", "/* 支払い */", "оплата"})
		} else {
			s.Comment = g.pick([]string{"move funds", "/* fee split */", "step"})
		}
	}
	return s
}

// Generate builds one case from the PRNG stream.
func Generate(r *rand.Rand, p Profile) *G {
	g := &G{R: r, P: p}
	g.In = Inputs{Vars: map[string]string{}, Balances: map[string]map[string]string{}, Meta: map[string]map[string]string{}}
	n := p.NAccounts
	extra := 0
	if n > len(AccountPool) {
		extra = n - len(AccountPool)
		n = len(AccountPool)
	}
	if n < 1 {
		n = 1
	}
	g.Accts = append([]string(nil), AccountPool[:n]...)
	for i := 0; i < extra; i++ {
		g.Accts = append(g.Accts, fmt.Sprintf("users:%03d", 100+i))
	}
	if n < len(AccountPool) && g.chance(0.25) {
		// swap in names from the tail of the pool (long names, names that are prefixes of each other)
		g.Accts[g.R.IntN(n)] = AccountPool[len(AccountPool)-1-g.R.IntN(2)]
		if n > 1 && g.chance(0.5) {
			g.Accts[g.R.IntN(n)] = AccountPool[len(AccountPool)-2]
		}
	}
	// ledger truth first: every pool account, plus entries the script never
	// asks for (world with a negative balance, an extra account).
	for _, a := range g.Accts {
		for _, as := range AssetPool {
			if g.chance(0.7) {
				g.setTruthBalance(a, as, g.balanceValue())
			}
		}
	}
	if g.chance(0.6) {
		g.setTruthBalance("world", g.pick(AssetPool), big.NewInt(-int64(1+g.R.IntN(100000))))
	}
	if g.chance(0.5) {
		g.setTruthBalance("unrelated:acct", g.pick(AssetPool), big.NewInt(int64(g.R.IntN(1000))))
	}
	if g.chance(0.3) {
		g.In.Meta["unrelated:acct"] = map[string]string{"k": "v"}
	}
	g.genVars()
	ns := 1 + g.R.IntN(p.MaxStmts)
	for i := 0; i < ns; i++ {
		st := g.genStmt()
		g.Prog.Stmts = append(g.Prog.Stmts, st)
	}
	hasMetaOrigin := false
	for _, v := range g.Prog.Vars {
		hasMetaOrigin = hasMetaOrigin || v.Fn == "meta"
	}
	if hasMetaOrigin && g.chance(0.2) {
		// per-currency flags: metadata keys that are spelled like asset codes
		for k := 1 + g.R.IntN(3); k > 0; k-- {
			acc := g.pick(g.Accts)
			if g.In.Meta[acc] == nil {
				g.In.Meta[acc] = map[string]string{}
			}
			g.In.Meta[acc][g.pick(AssetPool)] = "enabled"
		}
	}
	if hasMetaOrigin && g.chance(0.15) {
		// a set_account_meta that writes what the store already holds (a store that answers a
		// metadata request with more than was asked lets the interpreter know that)
		acc := g.pick(g.Accts)
		if g.In.Meta[acc] == nil {
			g.In.Meta[acc] = map[string]string{}
		}
		g.In.Meta[acc]["zz_same"] = "unchanged"
		g.Prog.Stmts = append(g.Prog.Stmts, Stmt{K: "call", Fn: "set_account_meta", Args: []Expr{*Acc(acc), *Str("zz_same"), *Str("unchanged")}})
	}
	if len(g.Prog.Vars) > 0 && len(g.Prog.Stmts) > 0 && g.chance(0.1) {
		// the name of a declared variable inside a comment and inside a string literal: text, not a use
		name := g.Prog.Vars[g.R.IntN(len(g.Prog.Vars))].Name
		if g.chance(0.5) {
			g.Prog.Stmts[g.R.IntN(len(g.Prog.Stmts))].Comment = "pays $" + name + " its share ($" + name + ")"
		} else {
			g.Prog.Stmts = append(g.Prog.Stmts, Stmt{K: "call", Fn: "set_tx_meta", Args: []Expr{*Str("note"), *Str("for $" + name + " only")}})
		}
	}
	if g.chance(p.PComment) || g.chance(0.05) {
		g.Prog.Trailer = g.pick([]string{"// end", "// fin du script", "/* done */", "// "})
	}
	if g.chance(p.PCompact) {
		g.Prog.Style = 1 + g.R.IntN(3)
		g.Prog.Trailer = ""
		for i := range g.Prog.Stmts {
			g.Prog.Stmts[i].Comment = "" // line comments need their own line
		}
	}
	if g.UsesOverdraftFn {
		if g.P.Safe || g.chance(0.85) {
			g.In.Flags = append(g.In.Flags, FlagOverdraft)
		}
	} else if g.chance(p.PFlag * 0.3) {
		g.In.Flags = append(g.In.Flags, FlagOverdraft)
	}
	return g
}
