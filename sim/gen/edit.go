//go:build verif

package gen

import (
	"math/rand/v2"
	"strings"
)

func pickS(r *rand.Rand, xs []string) string { return xs[r.IntN(len(xs))] }

var editNames = []string{"a", "b", "x", "amount", "src", "dst", "fee", "rate", "who", "cur"}

var junk = []string{"send", "{", "}", "(", ")", "$", "@", "[", "]", "max", "remaining", "kept", "vars", "=", "1/", "%", "\"", "//", "/*", "to", "from", "USD", "$zz", "*", "-", "+"}

// tokenise splits on whitespace boundaries but keeps the separators, so that
// joining the pieces gives back the text.
func tokenise(s string) []string {
	var out []string
	cur := strings.Builder{}
	space := false
	for _, c := range s {
		isSp := c == ' ' || c == '\n' || c == '\t'
		if cur.Len() > 0 && isSp != space {
			out = append(out, cur.String())
			cur.Reset()
		}
		space = isSp
		cur.WriteRune(c)
	}
	if cur.Len() > 0 {
		out = append(out, cur.String())
	}
	return out
}

// EditText models typing: the result is near the input and usually not a valid script.
func EditText(r *rand.Rand, t string) string {
	runes := []rune(t)
	switch r.IntN(10) {
	case 9: // a line that makes today's parser / checker panic: exercises server crash, restart and re-open
		return t + pickS(r, []string{
			"send [USD 99999999999999999999] (source = @a destination = @b)\n",
			"send [USD 1] (source = { 08% from @a remaining from @b } destination = @c)\n",
			"send [USD 1] (source = @a destination = { 1/0 to @a remaining to @b })\n",
		})
	case 0: // prefix at character granularity
		if len(runes) > 0 {
			return string(runes[:r.IntN(len(runes)+1)])
		}
	case 1: // prefix at token granularity
		tk := tokenise(t)
		if len(tk) > 0 {
			return strings.Join(tk[:r.IntN(len(tk)+1)], "")
		}
	case 2: // delete a token
		tk := tokenise(t)
		if len(tk) > 1 {
			i := r.IntN(len(tk))
			return strings.Join(append(append([]string{}, tk[:i]...), tk[i+1:]...), "")
		}
	case 3: // duplicate a token
		tk := tokenise(t)
		if len(tk) > 0 {
			i := r.IntN(len(tk))
			out := append(append([]string{}, tk[:i+1]...), tk[i:]...)
			return strings.Join(out, "")
		}
	case 4: // insert junk
		tk := tokenise(t)
		i := r.IntN(len(tk) + 1)
		out := append(append(append([]string{}, tk[:i]...), " "+pickS(r, junk)+" "), tk[i:]...)
		return strings.Join(out, "")
	case 5: // rename one occurrence of a variable
		idx := strings.Index(t, "$")
		if idx >= 0 {
			all := []int{}
			for i, c := range t {
				if c == '$' {
					all = append(all, i)
				}
			}
			i := all[r.IntN(len(all))]
			return t[:i] + "$" + pickS(r, editNames) + "_" + t[i+1:]
		}
	case 6: // drop one bracket
		var pos []int
		for i, c := range t {
			if strings.ContainsRune("{}()[]", c) {
				pos = append(pos, i)
			}
		}
		if len(pos) > 0 {
			i := pos[r.IntN(len(pos))]
			return t[:i] + t[i+1:]
		}
	case 7: // delete a character
		if len(runes) > 0 {
			i := r.IntN(len(runes))
			return string(append(append([]rune{}, runes[:i]...), runes[i+1:]...))
		}
	default: // append a line being typed
		return t + pickS(r, []string{"send [USD 1", "send [USD 10] (\n  source = @a\n", "vars {", "set_tx_meta(\"k\", ", "save [USD *] from ", "// note\n", "send $amount (source = $src destination = $dst)\n"})
	}
	return t + " "
}
