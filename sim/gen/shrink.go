//go:build verif

package gen

import (
	"encoding/json"
	"sort"
)

func (prog Program) Clone() Program {
	b, err := json.Marshal(prog)
	if err != nil {
		panic(err)
	}
	var out Program
	if err := json.Unmarshal(b, &out); err != nil {
		panic(err)
	}
	return out
}

func sortedKeys[V any](m map[string]V) []string {
	ks := make([]string, 0, len(m))
	for k := range m {
		ks = append(ks, k)
	}
	sort.Strings(ks)
	return ks
}

// PI is the (program, inputs) pair most engines shrink together.
type PI struct {
	Prog Program `json:"program"`
	In   Inputs  `json:"inputs"`
}

func (c PI) Clone() PI { return PI{Prog: c.Prog.Clone(), In: c.In.Clone()} }

// Candidates returns one-step smaller variants, most aggressive first.
func (c PI) Candidates() []PI {
	var out []PI
	// A candidate shares every sub-tree it does not change with the original (nothing below
	// mutates a tree in place: statements and declarations are replaced in copied slices, inputs
	// in copied maps). A deep copy per candidate made one round of the minimiser cost seconds
	// on the large size strata, and a round is paid for every step of the descent.
	add := func(f func(*PI) bool) {
		if len(out) >= 4000 {
			return
		}
		n := PI{Prog: c.Prog, In: c.In.Clone()}
		n.Prog.Vars = append([]VarDecl(nil), c.Prog.Vars...)
		n.Prog.Stmts = append([]Stmt(nil), c.Prog.Stmts...)
		if f(&n) {
			out = append(out, n)
		}
	}
	// drop a statement
	for i := range c.Prog.Stmts {
		i := i
		add(func(n *PI) bool {
			n.Prog.Stmts = append(n.Prog.Stmts[:i], n.Prog.Stmts[i+1:]...)
			return true
		})
	}
	// drop a variable declaration (and its input)
	for i := range c.Prog.Vars {
		i := i
		add(func(n *PI) bool {
			name := n.Prog.Vars[i].Name
			n.Prog.Vars = append(n.Prog.Vars[:i], n.Prog.Vars[i+1:]...)
			delete(n.In.Vars, name)
			return true
		})
	}
	// turn an origin variable into a plain one with the same value is not possible
	// without knowing the value; instead try dropping the origin call's inputs later.

	// simplify sources and destinations
	for i := range c.Prog.Stmts {
		i := i
		s := &c.Prog.Stmts[i]
		if s.Src != nil {
			for pi, alt := range srcAlternatives(s.Src) {
				_ = pi
				alt := alt
				add(func(n *PI) bool { n.Prog.Stmts[i].Src = &alt; return true })
			}
		}
		if s.Dst != nil {
			for _, alt := range dstAlternatives(s.Dst) {
				alt := alt
				add(func(n *PI) bool { n.Prog.Stmts[i].Dst = &alt; return true })
			}
		}
		if s.Comment != "" {
			add(func(n *PI) bool { n.Prog.Stmts[i].Comment = ""; return true })
		}
		if s.Amt != nil {
			for _, alt := range exprAlternatives(s.Amt) {
				alt := alt
				add(func(n *PI) bool { n.Prog.Stmts[i].Amt = &alt; return true })
			}
		}
	}
	// replace a variable use by its literal value is type dependent; skipped.

	// drop ledger entries
	for _, a := range sortedKeys(c.In.Balances) {
		a := a
		add(func(n *PI) bool { delete(n.In.Balances, a); return true })
		for _, as := range sortedKeys(c.In.Balances[a]) {
			as := as
			if len(c.In.Balances[a]) > 1 {
				add(func(n *PI) bool { delete(n.In.Balances[a], as); return true })
			}
			v := c.In.Balances[a][as]
			for _, sv := range []string{"0", "1", "10"} {
				sv := sv
				if v != sv && len(v) > len(sv) {
					add(func(n *PI) bool { n.In.Balances[a][as] = sv; return true })
				}
			}
		}
	}
	for _, a := range sortedKeys(c.In.Meta) {
		a := a
		add(func(n *PI) bool { delete(n.In.Meta, a); return true })
	}
	if len(c.In.Flags) > 0 {
		add(func(n *PI) bool { n.In.Flags = nil; return true })
	}
	if c.Prog.Trailer != "" {
		add(func(n *PI) bool { n.Prog.Trailer = ""; return true })
	}
	if c.Prog.Style != 0 {
		add(func(n *PI) bool { n.Prog.Style = 0; return true })
	}
	return out
}

// srcAlternatives: children that can stand for their parent, and leaves.
func srcAlternatives(s *Src) []Src {
	var out []Src
	switch s.K {
	case "seq":
		for i := range s.Subs {
			out = append(out, s.Subs[i])
		}
		for i := range s.Subs {
			n := *s
			n.Subs = append(append([]Src{}, s.Subs[:i]...), s.Subs[i+1:]...)
			out = append(out, n)
		}
	case "cap":
		if len(s.Subs) > 0 {
			out = append(out, s.Subs[0])
		}
	case "allot":
		for i := range s.Items {
			out = append(out, s.Items[i].From)
		}
	case "bnd", "unb":
		out = append(out, Src{K: "acc", E: s.E})
	}
	// recurse: replace a child by one of its alternatives
	for i := range s.Subs {
		for _, alt := range srcAlternatives(&s.Subs[i]) {
			n := *s
			n.Subs = append([]Src{}, s.Subs...)
			n.Subs[i] = alt
			out = append(out, n)
		}
	}
	for i := range s.Items {
		for _, alt := range srcAlternatives(&s.Items[i].From) {
			n := *s
			n.Items = append([]SrcItem{}, s.Items...)
			n.Items[i].From = alt
			out = append(out, n)
		}
	}
	return out
}

func dstAlternatives(d *Dst) []Dst {
	var out []Dst
	sub := func(k *KoD) {
		if k != nil && !k.Kept && k.D != nil {
			out = append(out, *k.D)
		}
	}
	switch d.K {
	case "seq":
		for i := range d.Clauses {
			sub(&d.Clauses[i].To)
		}
		sub(d.Rem)
		for i := range d.Clauses {
			n := *d
			n.Clauses = append(append([]DstClause{}, d.Clauses[:i]...), d.Clauses[i+1:]...)
			out = append(out, n)
		}
	case "allot":
		for i := range d.Items {
			sub(&d.Items[i].To)
		}
	}
	return out
}

func exprAlternatives(e *Expr) []Expr {
	var out []Expr
	switch e.K {
	case "add", "sub":
		if e.L != nil {
			out = append(out, *e.L)
		}
		if e.R != nil {
			out = append(out, *e.R)
		}
	case "mon":
		if e.R != nil && e.R.K == "num" {
			for _, v := range []string{"0", "1", "10"} {
				if e.R.S != v && len(e.R.S) >= len(v) {
					out = append(out, Expr{K: "mon", L: e.L, R: Num(v)})
				}
			}
		}
		if e.R != nil {
			for _, alt := range exprAlternatives(e.R) {
				alt := alt
				out = append(out, Expr{K: "mon", L: e.L, R: &alt})
			}
		}
	}
	return out
}
