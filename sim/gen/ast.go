//go:build verif

// Package gen is the workload generator: a JSON-serialisable script AST, a
// printer that records the exact span of every variable use, declaration and
// function name, a grammar- and type-directed random generator, and one-step
// shrink candidates for the minimiser.
package gen

import (
	"strings"
	"unicode/utf8"
)

// Expr kinds: acc asset num str var mon por add sub
type Expr struct {
	K string `json:"k"`
	S string `json:"s,omitempty"`
	L *Expr  `json:"l,omitempty"`
	R *Expr  `json:"r,omitempty"`
}

// Allot kinds: lit var rem
type Allot struct {
	K string `json:"k"`
	S string `json:"s,omitempty"`
}

// Src kinds: acc unb bnd seq cap allot
type Src struct {
	K     string    `json:"k"`
	E     *Expr     `json:"e,omitempty"` // account (acc/unb/bnd) or cap (cap)
	B     *Expr     `json:"b,omitempty"` // overdraft bound (bnd)
	Subs  []Src     `json:"subs,omitempty"`
	Items []SrcItem `json:"items,omitempty"`
}

type SrcItem struct {
	A    Allot `json:"a"`
	From Src   `json:"from"`
}

// Dst kinds: acc seq allot
type Dst struct {
	K       string      `json:"k"`
	E       *Expr       `json:"e,omitempty"`
	Clauses []DstClause `json:"clauses,omitempty"`
	Rem     *KoD        `json:"rem,omitempty"`
	Items   []DstItem   `json:"items,omitempty"`
}

type KoD struct {
	Kept bool `json:"kept,omitempty"`
	D    *Dst `json:"d,omitempty"`
}

type DstClause struct {
	Cap Expr `json:"cap"`
	To  KoD  `json:"to"`
}

type DstItem struct {
	A  Allot `json:"a"`
	To KoD   `json:"to"`
}

// Stmt kinds: send save call
type Stmt struct {
	K       string `json:"k"`
	All     bool   `json:"all,omitempty"`
	Amt     *Expr  `json:"amt,omitempty"` // monetary expr, or asset expr when All
	Src     *Src   `json:"src,omitempty"`
	Dst     *Dst   `json:"dst,omitempty"`
	Acc     *Expr  `json:"acc,omitempty"` // save ... from Acc
	Fn      string `json:"fn,omitempty"`
	Args    []Expr `json:"args,omitempty"`
	Comment string `json:"comment,omitempty"`
}

type VarDecl struct {
	Type string `json:"type"`
	Name string `json:"name"`
	Fn   string `json:"fn,omitempty"` // origin function, "" if none
	Args []Expr `json:"args,omitempty"`
}

type Program struct {
	Vars  []VarDecl `json:"vars,omitempty"`
	Stmts []Stmt    `json:"stmts,omitempty"`
	Style int       `json:"style,omitempty"` // 0: multi-line, 1: compact, 2: tight (no optional white space in source lists and argument lists), 3: the whole script on one line
	// Trailer is a comment printed after the last statement (a script may end in a `//` line
	// comment, whose terminating newline is then the last byte of the text)
	Trailer string `json:"trailer,omitempty"`
}

// Inputs of one execution; balances are decimal strings so that the case is
// plain JSON and values beyond 2^64 survive.
type Inputs struct {
	Vars     map[string]string            `json:"vars"`
	Balances map[string]map[string]string `json:"balances"`
	Meta     map[string]map[string]string `json:"meta"`
	Flags    []string                     `json:"flags,omitempty"`
}

func (in Inputs) Clone() Inputs {
	out := Inputs{Vars: map[string]string{}, Balances: map[string]map[string]string{}, Meta: map[string]map[string]string{}}
	for k, v := range in.Vars {
		out.Vars[k] = v
	}
	for a, m := range in.Balances {
		mm := map[string]string{}
		for k, v := range m {
			mm[k] = v
		}
		out.Balances[a] = mm
	}
	for a, m := range in.Meta {
		mm := map[string]string{}
		for k, v := range m {
			mm[k] = v
		}
		out.Meta[a] = mm
	}
	out.Flags = append([]string(nil), in.Flags...)
	return out
}

// Span is a half-open [Col, Col+Len) range on one line, in characters.
type Span struct {
	Kind string `json:"kind"` // use | decl | fn | type
	Name string `json:"name"`
	Type string `json:"type,omitempty"` // declared type, for use and decl
	Ctx  string `json:"ctx,omitempty"`  // fn: origin | statement
	Line int    `json:"line"`
	Col  int    `json:"col"`
	Len  int    `json:"len"`
}

type Printed struct {
	Text  string
	Spans []Span
}

type printer struct {
	sb    strings.Builder
	line  int
	col   int
	spans []Span
	types map[string]string
	style int
	ind   int
}

func (p *printer) w(s string) {
	p.sb.WriteString(s)
	for _, r := range s {
		if r == '\n' {
			p.line++
			p.col = 0
		} else {
			p.col++
		}
	}
}

// eol ends a declaration or a statement: a line break, or in style 3 ("one line": the whole
// script on a single line, the vars block included) a blank.
func (p *printer) eol() {
	if p.style == 3 {
		p.w(" ")
		return
	}
	p.w("\n")
}

func (p *printer) nl() {
	if p.style >= 1 {
		p.w(" ")
		return
	}
	p.w("\n")
	p.w(strings.Repeat("  ", p.ind))
}

func (p *printer) span(kind, name, ctx string, text string) {
	p.spans = append(p.spans, Span{Kind: kind, Name: name, Type: p.types[name], Ctx: ctx, Line: p.line, Col: p.col, Len: utf8.RuneCountInString(text)})
	p.w(text)
}

func (p *printer) expr(e *Expr) {
	if e == nil {
		return
	}
	switch e.K {
	case "acc":
		p.w("@" + e.S)
	case "asset", "num", "por":
		p.w(e.S)
	case "str":
		p.w("\"" + e.S + "\"")
	case "var":
		p.span("use", e.S, "", "$"+e.S)
	case "mon":
		p.w("[")
		p.expr(e.L)
		p.w(" ")
		p.expr(e.R)
		p.w("]")
	case "add", "sub":
		p.expr(e.L)
		if e.K == "add" {
			p.w(" + ")
		} else {
			p.w(" - ")
		}
		p.expr(e.R)
	default:
		p.w(e.S) // raw text escape hatch (used by hostile mutations)
	}
}

func (p *printer) allot(a Allot) {
	switch a.K {
	case "var":
		p.span("use", a.S, "", "$"+a.S)
	case "rem":
		p.w("remaining")
	default:
		p.w(a.S)
	}
}

func (p *printer) src(s *Src) {
	switch s.K {
	case "acc":
		p.expr(s.E)
	case "unb":
		p.expr(s.E)
		p.w(" allowing unbounded overdraft")
	case "bnd":
		p.expr(s.E)
		p.w(" allowing overdraft up to ")
		p.expr(s.B)
	case "seq":
		p.w("{")
		p.ind++
		for i := range s.Subs {
			// style 2 ("tight"): no white space where the grammar needs none -- {@a$b{@c}}
			sub := &s.Subs[i]
			sigil := sub.K == "seq" || (sub.K == "acc" || sub.K == "unb" || sub.K == "bnd") && sub.E != nil && (sub.E.K == "acc" || sub.E.K == "var")
			if !(p.style == 2 && sigil) {
				p.nl()
			}
			p.src(&s.Subs[i])
		}
		p.ind--
		if p.style != 2 {
			p.nl()
		}
		p.w("}")
	case "cap":
		p.w("max ")
		p.expr(s.E)
		p.w(" from ")
		if len(s.Subs) > 0 {
			p.src(&s.Subs[0])
		}
	case "allot":
		p.w("{")
		p.ind++
		for i := range s.Items {
			p.nl()
			p.allot(s.Items[i].A)
			p.w(" from ")
			p.src(&s.Items[i].From)
		}
		p.ind--
		p.nl()
		p.w("}")
	}
}

func (p *printer) kod(k *KoD) {
	if k == nil || k.Kept || k.D == nil {
		p.w("kept")
		return
	}
	p.w("to ")
	p.dst(k.D)
}

func (p *printer) dst(d *Dst) {
	switch d.K {
	case "acc":
		p.expr(d.E)
	case "seq":
		p.w("{")
		p.ind++
		for i := range d.Clauses {
			p.nl()
			p.w("max ")
			p.expr(&d.Clauses[i].Cap)
			p.w(" ")
			p.kod(&d.Clauses[i].To)
		}
		p.nl()
		p.w("remaining ")
		p.kod(d.Rem)
		p.ind--
		p.nl()
		p.w("}")
	case "allot":
		p.w("{")
		p.ind++
		for i := range d.Items {
			p.nl()
			p.allot(d.Items[i].A)
			p.w(" ")
			p.kod(&d.Items[i].To)
		}
		p.ind--
		p.nl()
		p.w("}")
	}
}

func (p *printer) call(fn string, args []Expr, ctx string) {
	p.span("fn", fn, ctx, fn)
	p.w("(")
	for i := range args {
		if i > 0 {
			if p.style == 2 {
				p.w(",")
			} else {
				p.w(", ")
			}
		}
		p.expr(&args[i])
	}
	p.w(")")
}

func (p *printer) stmt(s *Stmt) {
	if s.Comment != "" {
		if strings.HasPrefix(s.Comment, "/*") {
			p.w(s.Comment)
		} else {
			p.w("// " + s.Comment)
		}
		p.w("\n")
	}
	switch s.K {
	case "send":
		p.w("send ")
		p.sent(s)
		p.w(" (")
		p.ind++
		p.nl()
		p.w("source = ")
		if s.Src != nil {
			p.src(s.Src)
		}
		p.nl()
		p.w("destination = ")
		if s.Dst != nil {
			p.dst(s.Dst)
		}
		p.ind--
		p.nl()
		p.w(")")
	case "save":
		p.w("save ")
		p.sent(s)
		p.w(" from ")
		p.expr(s.Acc)
	case "call":
		p.call(s.Fn, s.Args, "statement")
	}
	p.eol()
}

func (p *printer) sent(s *Stmt) {
	if s.All {
		p.w("[")
		p.expr(s.Amt)
		p.w(" *]")
	} else {
		p.expr(s.Amt)
	}
}

// Print renders the program and records spans.
func (prog Program) Print() Printed {
	p := &printer{types: map[string]string{}, style: prog.Style}
	for _, v := range prog.Vars {
		if _, dup := p.types[v.Name]; !dup {
			p.types[v.Name] = v.Type
		}
	}
	if len(prog.Vars) > 0 {
		p.w("vars {")
		p.eol()
		for i := range prog.Vars {
			v := &prog.Vars[i]
			p.w("  ")
			p.span("type", v.Type, "", v.Type)
			p.w(" ")
			p.span("decl", v.Name, "", "$"+v.Name)
			if v.Fn != "" {
				p.w(" = ")
				p.call(v.Fn, v.Args, "origin")
			}
			p.eol()
		}
		p.w("}")
		p.eol()
	}
	for i := range prog.Stmts {
		p.stmt(&prog.Stmts[i])
	}
	if prog.Trailer != "" {
		p.w(prog.Trailer + "\n")
	}
	return Printed{Text: p.sb.String(), Spans: p.spans}
}

func (prog Program) Text() string { return prog.Print().Text }

// ---- small constructors

func Acc(name string) *Expr   { return &Expr{K: "acc", S: name} }
func Asset(name string) *Expr { return &Expr{K: "asset", S: name} }
func Num(s string) *Expr      { return &Expr{K: "num", S: s} }
func Str(s string) *Expr      { return &Expr{K: "str", S: s} }
func Var(name string) *Expr   { return &Expr{K: "var", S: name} }
func Por(s string) *Expr      { return &Expr{K: "por", S: s} }
func Mon(a, n *Expr) *Expr    { return &Expr{K: "mon", L: a, R: n} }
func Raw(text string) *Expr   { return &Expr{K: "raw", S: text} }

// Walk helpers used by generators, hostile mutations and predicates.

func (e *Expr) walk(f func(*Expr)) {
	if e == nil {
		return
	}
	f(e)
	e.L.walk(f)
	e.R.walk(f)
}

func (s *Src) walkExprs(f func(*Expr)) {
	if s == nil {
		return
	}
	s.E.walk(f)
	s.B.walk(f)
	for i := range s.Subs {
		s.Subs[i].walkExprs(f)
	}
	for i := range s.Items {
		if s.Items[i].A.K == "var" {
			f(&Expr{K: "var", S: s.Items[i].A.S})
		}
		s.Items[i].From.walkExprs(f)
	}
}

func (k *KoD) walkExprs(f func(*Expr)) {
	if k == nil || k.D == nil {
		return
	}
	k.D.walkExprs(f)
}

func (d *Dst) walkExprs(f func(*Expr)) {
	if d == nil {
		return
	}
	d.E.walk(f)
	for i := range d.Clauses {
		d.Clauses[i].Cap.walk(f)
		d.Clauses[i].To.walkExprs(f)
	}
	d.Rem.walkExprs(f)
	for i := range d.Items {
		if d.Items[i].A.K == "var" {
			f(&Expr{K: "var", S: d.Items[i].A.S})
		}
		d.Items[i].To.walkExprs(f)
	}
}

// WalkExprs visits every expression node of the program (read-only).
func (prog *Program) WalkExprs(f func(*Expr)) {
	for i := range prog.Vars {
		for j := range prog.Vars[i].Args {
			prog.Vars[i].Args[j].walk(f)
		}
	}
	for i := range prog.Stmts {
		s := &prog.Stmts[i]
		s.Amt.walk(f)
		s.Acc.walk(f)
		s.Src.walkExprs(f)
		s.Dst.walkExprs(f)
		for j := range s.Args {
			s.Args[j].walk(f)
		}
	}
}

// UsedVars returns the set of variable names used anywhere.
func (prog *Program) UsedVars() map[string]bool {
	u := map[string]bool{}
	prog.WalkExprs(func(e *Expr) {
		if e.K == "var" {
			u[e.S] = true
		}
	})
	return u
}
