//go:build verif

package exec

import "github.com/formancehq/numscript/internal/parser"

func parseProgram(text string) parser.Program {
	return parser.Parse(text).Value
}
