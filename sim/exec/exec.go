//go:build verif

// Package exec runs the real interpreter on one (script, inputs, store) and
// turns what comes back into a canonical, comparable Outcome.
package exec

import (
	"context"
	"fmt"
	"math/big"
	"reflect"
	"regexp"
	"runtime"
	"strings"

	"github.com/formancehq/numscript"
	"github.com/formancehq/numscript/internal/interpreter"
	"github.com/formancehq/numscript/internal/verifsim/core"
	"github.com/formancehq/numscript/internal/verifsim/gen"
)

type Outcome struct {
	Panic     string   `json:"panic,omitempty"`
	PanicAt   string   `json:"panic_at,omitempty"`
	Err       string   `json:"err,omitempty"`
	ErrType   string   `json:"err_type,omitempty"`
	Wrapped   string   `json:"wrapped_type,omitempty"`
	Postings  []string `json:"postings,omitempty"`
	TxMeta    []string `json:"tx_meta,omitempty"`
	AccMeta   []string `json:"acc_meta,omitempty"`
	HasResult bool     `json:"has_result"` // any posting / metadata returned (even next to an error)
	NilResult bool     `json:"nil_result"` // RunProgram entry only: result pointer was nil

	raw    *interpreter.ExecutionResult // kept for Recheck
	rawErr interpreter.InterpreterError
}

// Scribble is what a caller may legally do with a result it owns: write into its maps, its
// postings and their amounts. Nothing of that may be visible to any other run.
func (o Outcome) Scribble() {
	if o.raw == nil {
		return
	}
	if o.raw.Metadata != nil {
		o.raw.Metadata["zz_scribbled_by_caller"] = interpreter.String("x")
	}
	if o.raw.AccountsMetadata != nil {
		o.raw.AccountsMetadata["zz_scribbled_by_caller"] = interpreter.AccountMetadata{"k": "v"}
		for _, m := range o.raw.AccountsMetadata {
			if m != nil {
				m["zz_scribbled_key"] = "v"
			}
		}
	}
	for i := range o.raw.Postings {
		if o.raw.Postings[i].Amount != nil {
			o.raw.Postings[i].Amount.SetInt64(-7777)
		}
		o.raw.Postings[i].Source = "zz_scribbled"
	}
}

// Recheck renders the result object again (later, after other runs have
// finished) and reports whether it still reads as it did when it was returned.
func (o Outcome) Recheck() (string, bool) {
	if o.raw == nil || o.Panic != "" {
		return "", true
	}
	var again Outcome
	again.Err, again.ErrType = o.Err, o.ErrType
	if o.rawErr != nil {
		// an error value handed to the caller must keep saying what it said
		func() {
			defer func() {
				if r := recover(); r != nil {
					again.Err = fmt.Sprint("Error() panics: ", r)
				}
			}()
			again.Err = o.rawErr.Error()
		}()
	}
	fillResult(&again, o.raw)
	return again.Canon(), again.Canon() == o.Canon()
}

var addrRe = regexp.MustCompile(`0x[0-9a-fA-F]+`)

func (o Outcome) Canon() string {
	if o.Panic != "" {
		// panic values may print pointers (%#v of AST nodes): addresses are not part of the outcome
		return "PANIC " + addrRe.ReplaceAllString(o.Panic, "0x?") + " @ " + o.PanicAt
	}
	if o.Err != "" {
		s := "ERR " + o.ErrType + ": " + o.Err
		if o.HasResult {
			s += " +RESULT " + strings.Join(o.Postings, ";")
		}
		return s
	}
	return "OK postings=[" + strings.Join(o.Postings, "; ") + "] tx=[" + strings.Join(o.TxMeta, "; ") + "] acc=[" + strings.Join(o.AccMeta, "; ") + "]"
}

func (o Outcome) OK() bool { return o.Panic == "" && o.Err == "" }

// Parsed wraps a parse in the domain rule: Parse must neither panic nor
// report errors for the script to be in the domain of C10-C12.
type Parsed struct {
	PR       numscript.ParseResult
	InDomain bool
	Why      string
}

func Parse(text string) (p Parsed) {
	defer func() {
		if r := recover(); r != nil {
			p = Parsed{InDomain: false, Why: fmt.Sprintf("parser panic: %v", r)}
		}
	}()
	pr := numscript.Parse(text)
	if errs := pr.GetParsingErrors(); len(errs) != 0 {
		return Parsed{InDomain: false, Why: "parse errors: " + errs[0].Msg}
	}
	return Parsed{PR: pr, InDomain: true}
}

// ParseLoose accepts a text whose parse reports errors (the ParseResult is still a value a
// caller can hold and run); only a panicking parser puts it outside the domain.
func ParseLoose(text string) (p Parsed) {
	defer func() {
		if r := recover(); r != nil {
			p = Parsed{InDomain: false, Why: fmt.Sprintf("parser panic: %v", r)}
		}
	}()
	return Parsed{PR: numscript.Parse(text), InDomain: true}
}

func Flags(in gen.Inputs) map[string]struct{} {
	if in.Flags == nil {
		return nil
	}
	m := map[string]struct{}{}
	for _, f := range in.Flags {
		m[f] = struct{}{}
	}
	return m
}

func CopyVars(in gen.Inputs) map[string]string {
	m := map[string]string{}
	for k, v := range in.Vars {
		m[k] = v
	}
	return m
}

func repoFrame() string {
	pcs := make([]uintptr, 64)
	n := runtime.Callers(3, pcs)
	frames := runtime.CallersFrames(pcs[:n])
	for {
		f, more := frames.Next()
		if strings.Contains(f.Function, "github.com/formancehq/numscript") && !strings.Contains(f.Function, "/verifsim/") {
			fn := f.Function
			if i := strings.LastIndex(fn, "/"); i >= 0 {
				fn = fn[i+1:]
			}
			// strip generic instantiation noise
			if i := strings.Index(fn, "["); i >= 0 {
				fn = fn[:i]
			}
			return fn
		}
		if !more {
			break
		}
	}
	return "?"
}

// safeText renders an amount the code under test handed out. A number that another run is
// still writing to (which is a violation the oracles report) can be in a state math/big
// panics on: the rendering then says so instead of taking the harness down.
func safeText(v *big.Int) (s string) {
	defer func() {
		if r := recover(); r != nil {
			s = fmt.Sprintf("<unprintable number: %v>", r)
		}
	}()
	return v.String()
}

func fillResult(o *Outcome, res *interpreter.ExecutionResult) {
	if res == nil {
		o.NilResult = true
		return
	}
	for _, p := range res.Postings {
		amt := "<nil>"
		if p.Amount != nil {
			amt = safeText(p.Amount)
		}
		o.Postings = append(o.Postings, fmt.Sprintf("%s->%s %s %s", p.Source, p.Destination, p.Asset, amt))
	}
	for _, k := range core.SortedKeys(res.Metadata) {
		v := res.Metadata[k]
		if v == nil {
			o.TxMeta = append(o.TxMeta, fmt.Sprintf("%q=<nil>", k))
		} else {
			o.TxMeta = append(o.TxMeta, fmt.Sprintf("%q=%s:%q", k, reflect.TypeOf(v).Name(), v.String()))
		}
	}
	for _, a := range core.SortedKeys(res.AccountsMetadata) {
		m := res.AccountsMetadata[a]
		for _, k := range core.SortedKeys(m) {
			o.AccMeta = append(o.AccMeta, fmt.Sprintf("%s/%q=%q", a, k, m[k]))
		}
	}
	o.HasResult = len(res.Postings) > 0 || len(res.Metadata) > 0 || len(res.AccountsMetadata) > 0
}

func fillErr(o *Outcome, err interpreter.InterpreterError) {
	if err == nil || reflect.ValueOf(err).Kind() == reflect.Ptr && reflect.ValueOf(err).IsNil() {
		return
	}
	o.Err = err.Error()
	o.ErrType = reflect.TypeOf(err).Name()
	if o.ErrType == "" {
		o.ErrType = reflect.TypeOf(err).String()
	}
	switch e := err.(type) {
	case interpreter.QueryBalanceError:
		if e.WrappedError != nil {
			o.Wrapped = reflect.TypeOf(e.WrappedError).String()
		}
	case interpreter.QueryMetadataError:
		if e.WrappedError != nil {
			o.Wrapped = reflect.TypeOf(e.WrappedError).String()
		}
	}
}

// Run executes through the public entry point numscript.ParseResult.RunWithFeatureFlags.
func Run(ctx context.Context, pr numscript.ParseResult, vars map[string]string, st interpreter.Store, flags map[string]struct{}) (o Outcome) {
	defer func() {
		if r := recover(); r != nil {
			o = Outcome{Panic: fmt.Sprint(r), PanicAt: repoFrame()}
		}
	}()
	res, err := pr.RunWithFeatureFlags(ctx, vars, st, flags)
	fillResult(&o, &res)
	o.raw = &res
	if o.Err != "" || err != nil {
		o.rawErr = err
	}
	fillErr(&o, err)
	return o
}

// Program extracts the parsed program from a ParseResult (unexported field) so
// that interpreter.RunProgram can be driven directly as the second entry point.
func RunProgram(ctx context.Context, text string, vars map[string]string, st interpreter.Store, flags map[string]struct{}) (o Outcome) {
	defer func() {
		if r := recover(); r != nil {
			o = Outcome{Panic: fmt.Sprint(r), PanicAt: repoFrame()}
		}
	}()
	prog := parseProgram(text)
	if flags == nil {
		flags = map[string]struct{}{}
	}
	res, err := interpreter.RunProgram(ctx, prog, vars, st, flags)
	fillResult(&o, res)
	fillErr(&o, err)
	return o
}
