//go:build verif

package exec

import (
	"encoding/json"
	"reflect"
	"unsafe"

	"github.com/formancehq/numscript"
	"github.com/formancehq/numscript/internal/parser"
	"github.com/formancehq/numscript/internal/verifsim/core"
)

// ProgramDigest renders the parsed program held inside a ParseResult (an
// unexported field, reached through reflection on a copy that shares every
// AST node with the original) and hashes it. "" if the layout is unknown.
func ProgramDigest(pr numscript.ParseResult) string {
	cp := pr
	v := reflect.ValueOf(&cp).Elem()
	for i := 0; i < v.NumField(); i++ {
		f := v.Field(i)
		if f.Type() == reflect.TypeOf(parser.ParseResult{}) {
			inner := (*parser.ParseResult)(unsafe.Pointer(f.UnsafeAddr()))
			b, err := json.Marshal(inner.Value)
			if err != nil {
				return ""
			}
			return core.ShortHash(b)
		}
	}
	return ""
}
