//go:build verif

// Package c12: execution never panics and fails atomically with a typed
// error. Oracle S enumerates the fault space of the Store seam for each
// sampled script (every call index x every fault kind, then seeded retry
// histories on one long-lived ParseResult); oracle H feeds hostile inputs
// built as labelled defects, each with the error category it must produce.
package c12

import (
	"context"
	"encoding/json"
	"fmt"
	"strings"

	"github.com/formancehq/numscript/internal/interpreter"
	"github.com/formancehq/numscript/internal/verifsim/core"
	"github.com/formancehq/numscript/internal/verifsim/exec"
	"github.com/formancehq/numscript/internal/verifsim/gen"
	"github.com/formancehq/numscript/internal/verifsim/store"
)

type Case struct {
	gen.PI
	Kind      string   `json:"kind"` // faults | hostile
	StoreMode string   `json:"store_mode"`
	PlanSeed  uint64   `json:"plan_seed"`
	Safe      bool     `json:"safe"`    // base script is guaranteed to succeed without defects
	Defects   []Defect `json:"defects"` // labels of the defects already applied to PI (hostile)
	Retry     []int    `json:"retry"`   // fault call indices of the retry history (0 = no fault)
	RetryKind []string `json:"retry_kind"`
}

type Result struct {
	InDomain  bool
	Why       string
	Violation *core.Violation
	Trace     *core.Trace
	Execs     int
	Calls     int
	Faults    map[string]int
	Baseline  exec.Outcome
	Probes    map[string]int
}

// error type -> the cause category the statement lists
var categoryOf = map[string]string{
	"MissingFundsErr":           "insufficient-funds",
	"InvalidMonetaryLiteral":    "wrong-type",
	"InvalidNumberLiteral":      "wrong-type",
	"TypeError":                 "wrong-type",
	"InvalidTypeErr":            "wrong-type",
	"BadPortionParsingErr":      "invalid-portion",
	"InvalidAllotmentSum":       "invalid-portion",
	"MetadataNotFound":          "missing-metadata",
	"UnboundVariableErr":        "unknown-name",
	"UnboundFunctionErr":        "unknown-name",
	"MissingVariableErr":        "missing-variable",
	"BadArityErr":               "wrong-arity",
	"NegativeBalanceError":      "negative-balance",
	"NegativeAmountErr":         "negative-amount",
	"InvalidAllotmentInSendAll": "invalid-send-all-source",
	"InvalidUnboundedInSendAll": "invalid-send-all-source",
	"MismatchedCurrencyError":   "mismatched-asset",
	"QueryBalanceError":         "store-failure",
	"QueryMetadataError":        "store-failure",
	"ExperimentalFeature":       "experimental-feature",
}

var keywordCategory = []struct{ kw, cat string }{
	{"not enough funds", "insufficient-funds"}, {"insufficient", "insufficient-funds"},
	{"negative balance", "negative-balance"}, {"negative", "negative-amount"},
	{"currency", "mismatched-asset"}, {"asset", "mismatched-asset"},
	{"portion", "invalid-portion"}, {"allotment", "invalid-portion"},
	{"type", "wrong-type"}, {"invalid monetary", "wrong-type"}, {"invalid number", "wrong-type"},
	{"unbound", "unknown-name"}, {"invalid function", "unknown-name"}, {"does not exist", "unknown-name"},
	{"missing in json", "missing-variable"}, {"missing", "missing-variable"},
	{"metadata", "missing-metadata"}, {"arity", "wrong-arity"}, {"arguments", "wrong-arity"},
	{"experimental", "experimental-feature"}, {"unbounded", "invalid-send-all-source"},
}

// Category maps an outcome's error to a cause category ("" if it names none).
func Category(o exec.Outcome) string {
	if c, ok := categoryOf[o.ErrType]; ok {
		return c
	}
	low := strings.ToLower(o.Err)
	for _, k := range keywordCategory {
		if strings.Contains(low, k.kw) {
			return k.cat
		}
	}
	return ""
}

func viol(oracle, class, detail string) *core.Violation {
	return &core.Violation{Property: "C12", Oracle: oracle, Class: class, Predicate: class, Detail: detail}
}

func faultMsg(k int, kind string, seed uint64) string {
	tok := fmt.Sprintf("simfault-%d-%x", k, core.Derive(seed, "tok", uint64(k))&0xffffff)
	switch core.Derive(seed, "msgstyle", uint64(k)) % 5 {
	case 4:
		return store.WrapsInterpreterError + tok
	case 0:
		return "ledger unavailable: " + tok
	case 1:
		return tok + "\nsecond line of the store's message"
	case 2:
		return "базa данных недоступна " + tok
	default:
		return tok
	}
}

func expectMsg(f store.Fault) string {
	switch f.Kind {
	case store.FaultCancel:
		return context.Canceled.Error()
	case store.FaultDeadline:
		return context.DeadlineExceeded.Error()
	}
	return f.Msg
}

// runOnce executes one attempt with a fresh SimStore under the given faults.
func runOnce(p exec.Parsed, text string, c Case, faults []store.Fault, viaProgram bool) (exec.Outcome, *store.SimStore) {
	plan := store.Plan{Mode: c.StoreMode, MetaMode: []string{"exact", "account", "all"}[c.PlanSeed%3], Seed: c.PlanSeed, Faults: faults}
	st := store.New(c.In, plan)
	ctx, cancel := context.WithCancel(context.Background())
	defer cancel()
	st.Cancel = cancel
	var o exec.Outcome
	if viaProgram {
		o = exec.RunProgram(ctx, text, exec.CopyVars(c.In), st, exec.Flags(c.In))
	} else {
		o = exec.Run(ctx, p.PR, exec.CopyVars(c.In), st, exec.Flags(c.In))
	}
	return o, st
}

func checkFaulted(o exec.Outcome, f store.Fault, viaProgram bool, st *store.SimStore) *core.Violation {
	where := fmt.Sprintf("fault %s at store call %d", f.Kind, f.Call)
	if o.Panic != "" {
		return viol("store-fault", "panic@"+o.PanicAt, where+": panic "+o.Panic)
	}
	if o.Err == "" {
		return viol("store-fault", "fault-swallowed", where+": execution returned no error: "+o.Canon()+" ; conversation: "+strings.Join(st.LogLines(), " | "))
	}
	if o.HasResult || (viaProgram && !o.NilResult) {
		return viol("store-fault", "fault-partial-result", where+": postings or metadata returned together with the error: "+o.Canon())
	}
	if !strings.Contains(o.Err, expectMsg(f)) {
		return viol("store-fault", "fault-message-lost", fmt.Sprintf("%s: error %q (%s) does not carry the store's message %q", where, o.Err, o.ErrType, expectMsg(f)))
	}
	return nil
}

func executeFaults(c Case, tr *core.Trace, res *Result, p exec.Parsed, text string) {
	base, st0 := runOnce(p, text, c, nil, false)
	res.Execs++
	res.Baseline = base
	res.Calls = st0.Calls()
	n := st0.Calls()
	tr.Add("baseline calls=%d %s", n, base.Canon())
	for _, l := range st0.LogLines() {
		tr.Add("  %s", l)
	}
	if base.Panic != "" {
		res.Violation = viol("hostile-input", "panic@"+base.PanicAt, "fault-free run panics: "+base.Panic)
		return
	}
	// the whole (call index x kind) space of this script
	for k := 1; k <= n; k++ {
		for ki, kind := range store.FaultKinds {
			f := store.Fault{Call: k, Kind: kind, Msg: faultMsg(k, kind, c.PlanSeed)}
			viaProgram := (k+ki)%3 == 0
			o, st := runOnce(p, text, c, []store.Fault{f}, viaProgram)
			res.Execs++
			if st.Fired[kind] > 0 {
				res.Faults[kind]++
			} else {
				res.Probes["fault_not_reached"]++
			}
			tr.Add("fault %s@%d viaProgram=%v -> %s", kind, k, viaProgram, o.Canon())
			if st.Fired[kind] == 0 {
				// the k-th call was made in the baseline and calls < k were answered identically
				res.Violation = viol("store-fault", "conversation-not-deterministic", fmt.Sprintf("store call %d of the fault-free run was not made again under identical earlier answers", k))
				return
			}
			if v := checkFaulted(o, f, viaProgram, st); v != nil {
				res.Violation = v
				return
			}
			switch st.Log[len(st.Log)-1].Kind {
			case "meta":
				res.Probes["fault_on_metadata_call"]++
			default:
				if k == n {
					res.Probes["fault_on_preload_or_last_call"]++
				} else {
					res.Probes["fault_on_early_balance_call"]++
				}
			}
		}
	}
	// retry history on the same ParseResult: failed attempts, then a clean one
	for i, k := range c.Retry {
		var faults []store.Fault
		if k > 0 && k <= n {
			kind := store.FaultError
			if i < len(c.RetryKind) {
				kind = c.RetryKind[i]
			}
			faults = []store.Fault{{Call: k, Kind: kind, Msg: faultMsg(k, kind, c.PlanSeed+uint64(i)+1)}}
		}
		o, st := runOnce(p, text, c, faults, false)
		res.Execs++
		tr.Add("retry attempt %d fault@%d -> %s", i+1, k, o.Canon())
		if len(faults) > 0 {
			res.Faults[faults[0].Kind]++
			res.Probes["retry_failed_attempts"]++
			if v := checkFaulted(o, faults[0], false, st); v != nil {
				v.Detail = fmt.Sprintf("retry attempt %d: %s", i+1, v.Detail)
				res.Violation = v
				return
			}
		} else if o.Canon() != base.Canon() {
			res.Violation = viol("store-fault", "retry-diverges", fmt.Sprintf("attempt %d ran without faults after %d earlier attempts and returned %s ; the first fault-free run returned %s", i+1, i, o.Canon(), base.Canon()))
			return
		} else {
			res.Probes["retry_clean_attempt_matches"]++
		}
	}
}

func executeHostile(c Case, tr *core.Trace, res *Result, p exec.Parsed, text string) {
	o, st := runOnce(p, text, c, nil, false)
	o2, _ := runOnce(p, text, c, nil, true)
	res.Execs += 2
	res.Baseline = o
	res.Calls = st.Calls()
	tr.Add("run %s", o.Canon())
	tr.Add("runProgram %s", o2.Canon())
	for _, out := range []exec.Outcome{o, o2} {
		if out.Panic != "" {
			res.Violation = viol("hostile-input", "panic@"+out.PanicAt, "execution panics: "+out.Panic)
			return
		}
	}
	if o.Err != "" && o.HasResult {
		res.Violation = viol("hostile-input", "result-with-error", "ParseResult.Run returned postings or metadata together with an error: "+o.Canon())
		return
	}
	if o2.Err != "" && !o2.NilResult {
		res.Violation = viol("hostile-input", "result-with-error", "RunProgram returned a non-nil result together with an error: "+o2.Canon())
		return
	}
	if o.Canon() != o2.Canon() {
		res.Violation = viol("hostile-input", "entry-points-disagree", "ParseResult.Run: "+o.Canon()+" ; RunProgram: "+o2.Canon())
		return
	}
	if o.Err != "" && Category(o) == "" {
		res.Violation = viol("hostile-input", "uncategorised-error", fmt.Sprintf("error %q of type %s names none of the causes", o.Err, o.ErrType))
		return
	}
	if !c.Safe {
		return
	}
	certain := false
	allowed := map[string]bool{}
	var names []string
	for _, d := range c.Defects {
		names = append(names, d.Name)
		if d.Certain {
			certain = true
		}
		for _, a := range d.Allowed {
			allowed[a] = true
		}
	}
	if len(c.Defects) == 0 {
		if o.Err != "" {
			res.Violation = viol("hostile-input", "must-succeed-failed", "well-typed script with ample funds and well-formed inputs failed: "+o.Canon())
		}
		return
	}
	if o.Err == "" {
		if certain {
			res.Violation = viol("hostile-input", "must-fail-succeeded", fmt.Sprintf("defects %v were injected on a path that is always evaluated, yet execution succeeded: %s", names, o.Canon()))
		}
		return
	}
	cat := Category(o)
	if !allowed[cat] {
		res.Violation = viol("hostile-input", "wrong-category", fmt.Sprintf("defects %v must surface as one of %v; got %s (%s: %q)", names, core.SortedKeys(allowed), cat, o.ErrType, o.Err))
	}
}

// Execute is a pure function of the case and the code under test.
func Execute(c Case, keepTrace bool) Result {
	tr := core.NewTrace(keepTrace)
	res := Result{Trace: tr, Faults: map[string]int{}, Probes: map[string]int{}}
	text := c.Prog.Text()
	tr.Add("kind %s script %s", c.Kind, text)
	p := exec.Parse(text)
	if !p.InDomain {
		res.Why = p.Why
		return res
	}
	res.InDomain = true
	if c.Kind == "faults" {
		executeFaults(c, tr, &res, p, text)
	} else {
		executeHostile(c, tr, &res, p, text)
	}
	return res
}

var _ = interpreter.StaticStore{}

func candidates(c Case) []Case {
	var out []Case
	if len(c.Retry) > 0 {
		n := c
		n.Retry = nil
		n.RetryKind = nil
		out = append(out, n)
	}
	if c.StoreMode != store.ModeExact {
		n := c
		n.StoreMode = store.ModeExact
		out = append(out, n)
	}
	for _, pi := range c.PI.Candidates() {
		n := c
		n.PI = pi
		if c.Kind == "hostile" {
			// shrinking may remove the defect or the guarantee of success: keep only
			// oracles that do not depend on labels
			n.Safe = false
		}
		out = append(out, n)
	}
	return out
}

func Worker(o core.WorkerOpts) *core.Report {
	l := core.NewLoop(o)
	distinct := &core.HashSet{}
	l.Run(func(i int64, caseSeed uint64) {
		r := core.NewRand(caseSeed)
		var c Case
		if i%2 == 0 {
			c = genFaultCase(r)
		} else {
			c = genHostileCase(r)
		}
		l.Current(caseSeed, c)
		res := Execute(c, false)
		l.NoteTrace(res.Trace.Hash())
		if !res.InDomain {
			l.Rep.Skipped++
			l.Rep.Reach["skipped/"+strings.SplitN(res.Why, ":", 2)[0]]++
			return
		}
		l.Rep.Evaluations += int64(res.Execs)
		l.Rep.Steps["store_calls_fault_free"] += int64(res.Calls)
		for k, v := range res.Faults {
			l.Rep.Faults[k] += int64(v)
		}
		for k, v := range res.Probes {
			l.Rep.Reach[k] += int64(v)
		}
		nontrivial := false
		if c.Kind == "faults" {
			l.Rep.Reach["fault_cases"]++
			if res.Calls >= 1 {
				nontrivial = true
			}
			if res.Calls >= 3 {
				l.Rep.Reach["fault_cases_with_3plus_calls"]++
			}
		} else {
			l.Rep.Reach["hostile_cases"]++
			for _, d := range c.Defects {
				l.Rep.Reach["defect/"+d.Name]++
			}
			if len(c.Defects) > 0 {
				nontrivial = true
			} else if c.Safe {
				l.Rep.Reach["safe_baseline_must_succeed"]++
			}
			if res.Baseline.ErrType != "" {
				l.Rep.Reach["err/"+res.Baseline.ErrType]++
			} else {
				l.Rep.Reach["hostile_run_succeeded"]++
			}
		}
		if nontrivial {
			l.Rep.Nontrivial++
			distinct.Add(core.HashJSON(c))
		}
		if (i%20000 == 3 || i%20000 == 4) || len(l.Rep.Samples) < 2 && nontrivial {
			l.Sample(map[string]any{"kind": c.Kind, "script": c.Prog.Text(), "inputs": c.In, "defects": c.Defects, "store_mode": c.StoreMode, "retry": c.Retry, "fault_free_outcome": res.Baseline.Canon(), "store_calls": res.Calls})
		}
		if res.Violation != nil {
			v := *res.Violation
			if !l.ShouldReport(v) {
				return
			}
			min, used := core.Minimise(c, candidates, func(n Case) bool {
				rr := Execute(n, false)
				return rr.InDomain && rr.Violation != nil && rr.Violation.Signature() == v.Signature()
			}, 2000)
			fr := Execute(min, true)
			if fr.Violation == nil {
				min = c
				fr = Execute(c, true)
				if fr.Violation == nil {
					fr.Violation = &v
				}
			}
			l.AddReplay(*fr.Violation, caseSeed, min, c, fr.Trace.Events, fr.Trace.Hash(), used, "controlled")
		}
	})
	l.Rep.SaveHashes(o.OutDir, "nontrivial_cases", distinct)
	return l.Rep
}

func Replay(raw json.RawMessage) (*core.Violation, *core.Trace, error) {
	var c Case
	if err := json.Unmarshal(raw, &c); err != nil {
		return nil, nil, err
	}
	res := Execute(c, true)
	return res.Violation, res.Trace, nil
}
