//go:build verif

package c12

import (
	"math/rand/v2"
	"strings"

	"github.com/formancehq/numscript/internal/verifsim/core"
)

// fuzzText draws a string from a small grammar *around* the accepted text of a
// typed variable: the valid shapes with leading zeros, zero parts, extra or
// missing spaces, signs, huge digit runs, and near misses. "Arbitrary variable
// strings" is part of the property's quantifier; fixed lists of bad values do
// not reach e.g. a zero denominator written "00" or a zero-prefixed "08".
func fuzzText(r *rand.Rand, typ string) string {
	digits := func() string {
		switch r.IntN(9) {
		case 0:
			return "0"
		case 1:
			return strings.Repeat("0", 2+r.IntN(3))
		case 2:
			return "0" + core.Pick(r, []string{"8", "9", "7", "10", "08", "19"})
		case 3:
			return core.Pick(r, []string{"1", "2", "3", "5", "10", "100"})
		case 4:
			return strings.Repeat("9", 20+r.IntN(30))
		case 5:
			return "00" + core.Pick(r, []string{"1", "25", "100"})
		default:
			n := 1 + r.IntN(3)
			s := ""
			for i := 0; i < n; i++ {
				s += string(rune('0' + r.IntN(10)))
			}
			return s
		}
	}
	if r.IntN(9) == 0 {
		// JSON-shaped texts: ledgers have stored typed values as JSON envelopes, and a conversion
		// that starts accepting them meets envelopes with parts missing
		val := core.Pick(r, []string{"null", "{}", "[]", "[1,2]", "\"USD 5\"", "12", "true", "1e2", "{\"asset\":\"USD/2\"}", "{\"asset\":\"USD/2\",\"amount\":null}",
			"{\"asset\":\"USD/2\",\"amount\":100}", "{\"amount\":5}", "{\"asset\":null,\"amount\":5}", "{\"asset\":\"USD\",\"amount\":\"5\"}", "{\"asset\":\"USD\",\"amount\":-5}", "{\"asset\":\"USD\",\"amount\":1.5}",
			"{\"num\":1,\"den\":0}", "{\"specific\":null}", "\"1/2\""})
		switch r.IntN(4) {
		case 0:
			return val
		case 1:
			return "{\"type\":\"" + core.Pick(r, []string{"number", "monetary", "portion", "account", "string", "", "Monetary"}) + "\",\"value\":" + val + "}"
		case 2:
			return "{\"type\":\"" + typ + "\"}"
		default:
			return "{\"type\":\"" + typ + "\",\"value\":" + val + "}"
		}
	}
	sp := func() string { return core.Pick(r, []string{"", "", " ", "  ", "\t"}) }
	sign := func() string { return core.Pick(r, []string{"", "", "", "-", "+"}) }
	switch typ {
	case "portion":
		switch r.IntN(8) {
		case 0, 1, 2:
			return sign() + digits() + sp() + "/" + sp() + digits()
		case 3, 4:
			return digits() + "%"
		case 5:
			return digits() + "." + digits() + "%"
		case 6:
			return core.Pick(r, []string{".5%", "5.%", "%", "/", "1/", "/2", "1//2", "1/2/3", "50 %", "1/2%", "0.5", "١/٢", "1/-2"})
		default:
			return digits() + sp() + "/" + sp() + digits() + core.Pick(r, []string{"", " ", "\n"})
		}
	case "number":
		switch r.IntN(6) {
		case 0:
			return sign() + digits()
		case 1:
			return sp() + digits() + sp()
		case 2:
			return core.Pick(r, []string{"0x10", "1e3", "1_000", "١٢٣", "1.0", "", "-", "+", "--1", "NaN"})
		default:
			return sign() + digits()
		}
	case "monetary":
		asset := core.Pick(r, []string{"USD", "EUR/2", "", "usd", "U S", "USD/", "USD/2", "JPY/0", "BTC/8", "X/-1", "X/99"})
		switch r.IntN(8) {
		case 6:
			return asset + " " + sign() + digits() + "." + digits()
		case 7:
			return asset + " " + digits() + "." + digits() + "." + digits()
		case 0:
			return asset + " " + sign() + digits()
		case 1:
			return asset + sp() + sp() + digits()
		case 2:
			return digits() + " " + asset
		case 3:
			return asset + " " + digits() + " " + digits()
		case 4:
			return core.Pick(r, []string{"", " ", "USD", "USD ", " 5", "USD 1.5", "USD 0x5", "USD -", "[USD 5]"})
		default:
			return asset + " " + digits()
		}
	}
	return ""
}
