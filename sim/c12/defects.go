//go:build verif

package c12

import (
	"fmt"
	"math/rand/v2"

	"github.com/formancehq/numscript/internal/verifsim/core"
	"github.com/formancehq/numscript/internal/verifsim/gen"
	"github.com/formancehq/numscript/internal/verifsim/store"
)

// Defect is the label of one injected fault in the inputs / script: which
// cause categories the returned error may name, and whether the defect sits on
// a path that is always evaluated (then execution must fail).
type Defect struct {
	Name    string   `json:"name"`
	Allowed []string `json:"allowed"`
	Certain bool     `json:"certain"`
}

func genFaultCase(r *rand.Rand) Case {
	prof := gen.DrawProfile(r)
	// store conversations: origins and saves
	if r.IntN(4) != 0 {
		prof.POrigin = []float64{0.5, 0.8, 1}[r.IntN(3)]
		if prof.MaxVars < 2 {
			prof.MaxVars = 2 + r.IntN(4)
		}
	}
	g := gen.Generate(r, prof)
	c := Case{PI: gen.PI{Prog: g.Prog, In: g.In}, Kind: "faults", PlanSeed: r.Uint64()}
	c.StoreMode = []string{store.ModeExact, store.ModeExact, store.ModeSuperset, store.ModeStatic, store.ModeSparse}[r.IntN(5)]
	// retry history: up to 3 failing attempts then a clean one
	nf := r.IntN(4)
	for i := 0; i < nf; i++ {
		c.Retry = append(c.Retry, 1+r.IntN(4))
		c.RetryKind = append(c.RetryKind, store.FaultKinds[r.IntN(3)])
	}
	c.Retry = append(c.Retry, 0)
	c.RetryKind = append(c.RetryKind, "")
	return c
}

func genHostileCase(r *rand.Rand) Case {
	prof := gen.DrawProfile(r)
	c := Case{Kind: "hostile", PlanSeed: r.Uint64(), StoreMode: store.ModeExact}
	if r.IntN(4) == 0 {
		// unlabelled stress on an unconstrained script: no panic, result XOR error, a cause is named
		prof.PWrongAsset = 0.1
		g := gen.Generate(r, prof)
		c.PI = gen.PI{Prog: g.Prog, In: g.In}
		stress(r, &c.PI)
		return c
	}
	prof.Safe = true
	prof.PWrongAsset = 0
	prof.PNegBal = []float64{0, 0.2}[r.IntN(2)]
	g := gen.Generate(r, prof)
	c.PI = gen.PI{Prog: g.Prog, In: g.In}
	c.Safe = true
	d := []int{0, 1, 1, 1, 2}[r.IntN(5)]
	for i := 0; i < d; i++ {
		for try := 0; try < 8; try++ {
			if def, ok := applyDefect(r, &c.PI, len(c.Defects) == 0); ok {
				c.Defects = append(c.Defects, def)
				break
			}
		}
	}
	return c
}

// stress replaces variable values by strange but type-correct or garbage strings.
func stress(r *rand.Rand, c *gen.PI) {
	if len(c.Prog.Vars) > 0 && r.IntN(5) == 0 {
		// a declaration repeated (the parser accepts it)
		d := c.Prog.Vars[r.IntN(len(c.Prog.Vars))]
		if r.IntN(2) == 0 {
			d.Type = core.Pick(r, []string{"account", "asset", "number", "monetary", "portion", "string"})
		}
		at := r.IntN(len(c.Prog.Vars) + 1)
		c.Prog.Vars = append(c.Prog.Vars[:at], append([]gen.VarDecl{d}, c.Prog.Vars[at:]...)...)
	}
	for _, v := range c.Prog.Vars {
		// texts that reach the same parsers through meta()
		if v.Fn == "meta" && len(v.Args) == 2 && v.Args[0].K == "acc" && v.Args[1].K == "str" && r.IntN(3) == 0 {
			if t := fuzzText(r, v.Type); t != "" || v.Type == "number" {
				if c.In.Meta[v.Args[0].S] == nil {
					c.In.Meta[v.Args[0].S] = map[string]string{}
				}
				c.In.Meta[v.Args[0].S][v.Args[1].S] = t
			}
		}
	}
	for _, v := range c.Prog.Vars {
		if v.Fn != "" || r.IntN(3) != 0 {
			continue
		}
		if (v.Type == "number" || v.Type == "monetary" || v.Type == "portion") && r.IntN(2) == 0 {
			c.In.Vars[v.Name] = fuzzText(r, v.Type)
			continue
		}
		switch v.Type {
		case "account":
			c.In.Vars[v.Name] = core.Pick(r, []string{"", "né", "a b", "world", "@a", "x::y", "a\nb"})
		case "asset":
			c.In.Vars[v.Name] = core.Pick(r, []string{"", "usd", "US D", "€", "USD/"})
		case "string":
			c.In.Vars[v.Name] = core.Pick(r, []string{"", "\"", "日本語", "a\tb", "\\"})
		case "number":
			c.In.Vars[v.Name] = core.Pick(r, []string{"-1", "-340282366920938463463374607431768211456", "340282366920938463463374607431768211456", "00012", "+7", "1e3", " 5"})
		case "monetary":
			c.In.Vars[v.Name] = core.Pick(r, []string{"USD -1", "USD 340282366920938463463374607431768211456", " 5", "USD  5", "5 USD", "USD -0"})
		case "portion":
			c.In.Vars[v.Name] = core.Pick(r, []string{"0%", "100%", "1/1", "0/5", "1/0", "101%", "2/1", "0.000001%", "99.99999999999999999%", "1 / 3", "-1/2"})
		}
	}
}

type slot struct {
	get func() *gen.Expr
	set func(*gen.Expr)
}

// exprSlots lists expression positions that are always evaluated when the
// script is otherwise free of failures: sent values, source leaf accounts,
// the top-level destination account, save accounts, call arguments.
func exprSlots(c *gen.PI, kinds string) []slot {
	var out []slot
	if kinds == "any" {
		// arguments of variable origins: evaluated while the vars block is processed
		for i := range c.Prog.Vars {
			v := &c.Prog.Vars[i]
			if v.Fn == "" {
				continue
			}
			for j := range v.Args {
				j := j
				out = append(out, slot{func() *gen.Expr { return &v.Args[j] }, func(e *gen.Expr) { v.Args[j] = *e }})
			}
		}
	}
	for i := range c.Prog.Stmts {
		s := &c.Prog.Stmts[i]
		switch s.K {
		case "send":
			if !s.All && (kinds == "any" || kinds == "amt") {
				out = append(out, slot{func() *gen.Expr { return s.Amt }, func(e *gen.Expr) { s.Amt = e }})
			}
			if kinds == "any" || kinds == "acc" {
				var walk func(x *gen.Src)
				walk = func(x *gen.Src) {
					switch x.K {
					case "acc", "unb", "bnd":
						out = append(out, slot{func() *gen.Expr { return x.E }, func(e *gen.Expr) { x.E = e }})
					}
					for j := range x.Subs {
						walk(&x.Subs[j])
					}
					for j := range x.Items {
						walk(&x.Items[j].From)
					}
				}
				if s.Src != nil {
					walk(s.Src)
				}
				if s.Dst != nil && s.Dst.K == "acc" {
					d := s.Dst
					out = append(out, slot{func() *gen.Expr { return d.E }, func(e *gen.Expr) { d.E = e }})
				}
			}
		case "save":
			if !s.All && (kinds == "any" || kinds == "amt") {
				out = append(out, slot{func() *gen.Expr { return s.Amt }, func(e *gen.Expr) { s.Amt = e }})
			}
			if kinds == "any" || kinds == "acc" {
				out = append(out, slot{func() *gen.Expr { return s.Acc }, func(e *gen.Expr) { s.Acc = e }})
			}
		case "call":
			if kinds == "any" {
				for j := range s.Args {
					j := j
					out = append(out, slot{func() *gen.Expr { return &s.Args[j] }, func(e *gen.Expr) { s.Args[j] = *e }})
				}
			}
		}
	}
	return out
}

func plainVars(c *gen.PI, types ...string) []int {
	var out []int
	for i, v := range c.Prog.Vars {
		if v.Fn != "" {
			continue
		}
		if len(types) == 0 {
			out = append(out, i)
			continue
		}
		for _, t := range types {
			if v.Type == t {
				out = append(out, i)
			}
		}
	}
	return out
}

func stmtsOf(c *gen.PI, pred func(*gen.Stmt) bool) []int {
	var out []int
	for i := range c.Prog.Stmts {
		if pred(&c.Prog.Stmts[i]) {
			out = append(out, i)
		}
	}
	return out
}

func insertStmt(r *rand.Rand, c *gen.PI, s gen.Stmt) {
	at := r.IntN(len(c.Prog.Stmts) + 1)
	c.Prog.Stmts = append(c.Prog.Stmts, gen.Stmt{})
	copy(c.Prog.Stmts[at+1:], c.Prog.Stmts[at:])
	c.Prog.Stmts[at] = s
}

func stmtAsset(s *gen.Stmt, c *gen.PI) string {
	// the concrete asset of a send/save statement as the generator built it
	var e *gen.Expr
	if s.All {
		e = s.Amt
	} else {
		e = s.Amt
		for e != nil && (e.K == "add" || e.K == "sub") {
			e = e.L
		}
		if e != nil && e.K == "mon" {
			e = e.L
		}
	}
	if e == nil {
		return ""
	}
	switch e.K {
	case "asset":
		return e.S
	case "var":
		for _, v := range c.Prog.Vars {
			if v.Name == e.S {
				if v.Type == "asset" && v.Fn == "" {
					return c.In.Vars[v.Name]
				}
				if v.Type == "monetary" && v.Fn == "" {
					var a string
					fmt.Sscanf(c.In.Vars[v.Name], "%s", &a)
					return a
				}
			}
		}
	}
	return ""
}

func otherAsset(a string) string {
	for _, x := range gen.AssetPool {
		if x != a {
			return x
		}
	}
	return "XYZ"
}

var defectKinds = []string{
	"fuzzed-variable-text", "fuzzed-variable-text", "nested-slot", "nested-slot", "nested-slot",
	"omit-variable", "illformed-variable", "undeclared-type", "unbound-variable", "unknown-function-statement",
	"unknown-function-origin", "bad-arity", "wrong-type-expression", "negative-amount", "mismatched-asset",
	"bad-allotment-sum", "zero-denominator-portion", "insufficient-funds", "missing-metadata", "negative-balance",
	"overdraft-without-flag", "invalid-send-all-source", "origin-mentions-unbound-variable",
}

// ApplyDefect is exported for the C20 engine, which needs every kind of
// run-time failure to travel through the CLI.
func ApplyDefect(r *rand.Rand, c *gen.PI, first bool) (Defect, bool) {
	return applyDefect(r, c, first)
}

func applyDefect(r *rand.Rand, c *gen.PI, first bool) (Defect, bool) {
	kind := defectKinds[r.IntN(len(defectKinds))]
	d := Defect{Name: kind, Certain: true}
	switch kind {
	case "nested-slot":
		// A statement built from a template in which a nested position is certainly reached with
		// a positive amount (10 is sent from @world; caps and portions leave > 0 for the slot),
		// with the defect sitting in that position: rarely used constructs must report errors too.
		bad, allowed := nestedBad(r, c)
		acc := func(n string) *gen.Dst { return &gen.Dst{K: "acc", E: gen.Acc(n)} }
		usd := func(n string) *gen.Expr { return gen.Mon(gen.Asset("USD"), gen.Num(n)) }
		st := gen.Stmt{K: "send", Amt: usd("10"), Src: &gen.Src{K: "acc", E: gen.Acc("world")}, Dst: acc("b")}
		badDst := &gen.Dst{K: "acc", E: bad}
		switch r.IntN(9) {
		case 8: // an allotment item whose share of the amount is nothing (1 split in halves: 1 and 0): still evaluated
			st.Amt = usd("1")
			st.Dst = &gen.Dst{K: "allot", Items: []gen.DstItem{{A: gen.Allot{K: "lit", S: "1/2"}, To: gen.KoD{D: acc("a")}}, {A: gen.Allot{K: "lit", S: "1/2"}, To: gen.KoD{D: badDst}}}}
		case 0: // remaining of an in-order destination
			st.Dst = &gen.Dst{K: "seq", Clauses: []gen.DstClause{{Cap: *usd("3"), To: gen.KoD{D: acc("a")}}}, Rem: &gen.KoD{D: badDst}}
		case 1: // second clause of an in-order destination (7 left when it is reached)
			st.Dst = &gen.Dst{K: "seq", Clauses: []gen.DstClause{{Cap: *usd("3"), To: gen.KoD{Kept: true}}, {Cap: *usd("4"), To: gen.KoD{D: badDst}}}, Rem: &gen.KoD{Kept: true}}
		case 2: // item of a destination allotment nested in an in-order remaining
			inner := &gen.Dst{K: "allot", Items: []gen.DstItem{{A: gen.Allot{K: "lit", S: "1/2"}, To: gen.KoD{D: acc("a")}}, {A: gen.Allot{K: "rem"}, To: gen.KoD{D: badDst}}}}
			st.Dst = &gen.Dst{K: "seq", Rem: &gen.KoD{D: inner}}
		case 3: // second source of an in-order source behind a cap that leaves 6 to find
			st.Src = &gen.Src{K: "seq", Subs: []gen.Src{{K: "cap", E: usd("4"), Subs: []gen.Src{{K: "acc", E: gen.Acc("world")}}}, {K: "acc", E: bad}, {K: "acc", E: gen.Acc("world")}}}
		case 4: // source of an allotment item nested in a capped source
			inner := gen.Src{K: "allot", Items: []gen.SrcItem{{A: gen.Allot{K: "lit", S: "1/4"}, From: gen.Src{K: "acc", E: gen.Acc("world")}}, {A: gen.Allot{K: "rem"}, From: gen.Src{K: "unb", E: bad}}}}
			st.Src = &gen.Src{K: "seq", Subs: []gen.Src{{K: "cap", E: usd("8"), Subs: []gen.Src{inner}}, {K: "acc", E: gen.Acc("world")}}}
		case 5: // bounded overdraft account inside a send-all cap
			st.All, st.Amt = true, gen.Asset("USD")
			st.Src = &gen.Src{K: "cap", E: usd("5"), Subs: []gen.Src{{K: "bnd", E: bad, B: usd("5")}}}
		case 6: // account argument of set_account_meta / value position of set_tx_meta
			st = gen.Stmt{K: "call", Fn: "set_account_meta", Args: []gen.Expr{*bad, *gen.Str("k"), *gen.Num("1")}}
		default: // save account
			st = gen.Stmt{K: "save", Amt: usd("1"), Acc: bad}
		}
		insertStmt(r, c, st)
		d.Allowed = allowed
	case "fuzzed-variable-text":
		// text drawn around the accepted grammar: it may well be valid (then nothing must
		// fail), so the label only says which causes a failure may name
		if !first {
			// a possibly-valid text must not overwrite the value an earlier, certain defect relies on
			return d, false
		}
		// half of the time the text reaches the parser through meta()
		if r.IntN(2) == 0 {
			t := core.Pick(r, []string{"number", "monetary", "portion"})
			c.Prog.Vars = append(c.Prog.Vars, gen.VarDecl{Type: t, Name: "zz_fzm", Fn: "meta", Args: []gen.Expr{*gen.Acc("a"), *gen.Str("zz_fz_key")}})
			if c.In.Meta["a"] == nil {
				c.In.Meta["a"] = map[string]string{}
			}
			c.In.Meta["a"]["zz_fz_key"] = fuzzText(r, t)
			d.Certain = false
			d.Allowed = []string{"wrong-type", "invalid-portion"}
			return d, true
		}
		vs := plainVars(c, "number", "monetary", "portion")
		if len(vs) == 0 {
			// declare one and use it nowhere: parsing happens regardless of use
			t := core.Pick(r, []string{"number", "monetary", "portion"})
			c.Prog.Vars = append(c.Prog.Vars, gen.VarDecl{Type: t, Name: "zz_fz"})
			c.In.Vars["zz_fz"] = fuzzText(r, t)
		} else {
			v := c.Prog.Vars[vs[r.IntN(len(vs))]]
			c.In.Vars[v.Name] = fuzzText(r, v.Type)
		}
		d.Certain = false
		d.Allowed = []string{"wrong-type", "invalid-portion", "negative-amount", "mismatched-asset", "insufficient-funds", "invalid-portion"}
	case "omit-variable":
		vs := plainVars(c)
		if len(vs) == 0 {
			return d, false
		}
		name := c.Prog.Vars[vs[r.IntN(len(vs))]].Name
		if _, ok := c.In.Vars[name]; !ok {
			return d, false
		}
		delete(c.In.Vars, name)
		d.Allowed = []string{"missing-variable"}
	case "illformed-variable":
		vs := plainVars(c, "number", "monetary", "portion")
		if len(vs) == 0 {
			return d, false
		}
		v := c.Prog.Vars[vs[r.IntN(len(vs))]]
		switch v.Type {
		case "number":
			c.In.Vars[v.Name] = core.Pick(r, []string{"", "abc", "12x", "1.5", "USD 3"})
			d.Allowed = []string{"wrong-type"}
		case "monetary":
			c.In.Vars[v.Name] = core.Pick(r, []string{"", "USD", "USD 1 2", "USD x", "USD  5", "12"})
			d.Allowed = []string{"wrong-type"}
		default:
			c.In.Vars[v.Name] = core.Pick(r, []string{"", "abc", "1/", "50", "3/2", "150%", "1/0", "-1/2"})
			d.Allowed = []string{"invalid-portion", "wrong-type"}
		}
	case "undeclared-type":
		vs := plainVars(c)
		// a meta()-backed variable goes through the same per-type parsing once its metadata is found
		for i, v := range c.Prog.Vars {
			if v.Fn == "meta" && len(v.Args) == 2 && v.Args[0].K == "acc" && v.Args[1].K == "str" {
				if _, ok := c.In.Meta[v.Args[0].S][v.Args[1].S]; ok {
					vs = append(vs, i)
				}
			}
		}
		if len(vs) == 0 {
			// declare one on the spot, half of the time metadata-backed
			if r.IntN(2) == 0 {
				c.Prog.Vars = append(c.Prog.Vars, gen.VarDecl{Type: "number", Name: "zz_ut"})
				c.In.Vars["zz_ut"] = "1"
			} else {
				c.Prog.Vars = append(c.Prog.Vars, gen.VarDecl{Type: "number", Name: "zz_ut", Fn: "meta", Args: []gen.Expr{*gen.Acc("a"), *gen.Str("zz_key")}})
				if c.In.Meta["a"] == nil {
					c.In.Meta["a"] = map[string]string{}
				}
				c.In.Meta["a"]["zz_key"] = "1"
			}
			vs = []int{len(c.Prog.Vars) - 1}
		}
		i := vs[r.IntN(len(vs))]
		if _, ok := c.In.Vars[c.Prog.Vars[i].Name]; !ok && c.Prog.Vars[i].Fn == "" {
			return d, false
		}
		c.Prog.Vars[i].Type = core.Pick(r, []string{"money", "int", "foo", "accounts"})
		d.Allowed = []string{"wrong-type", "unknown-name"}
	case "unbound-variable":
		sl := exprSlots(c, "any")
		if len(sl) == 0 {
			return d, false
		}
		sl[r.IntN(len(sl))].set(gen.Var("nope"))
		d.Allowed = []string{"unknown-name"}
	case "origin-mentions-unbound-variable":
		// an origin whose argument is its own variable, a variable declared later, or two
		// origins that mention each other: at that point the name is not bound yet
		switch r.IntN(3) {
		case 0:
			c.Prog.Vars = append(c.Prog.Vars, gen.VarDecl{Type: "monetary", Name: "zz_self", Fn: "balance", Args: []gen.Expr{*gen.Var("zz_self"), *gen.Asset("USD")}})
		case 1:
			c.Prog.Vars = append(c.Prog.Vars,
				gen.VarDecl{Type: "account", Name: "zz_first", Fn: "meta", Args: []gen.Expr{*gen.Var("zz_second"), *gen.Str("k")}},
				gen.VarDecl{Type: "account", Name: "zz_second", Fn: "meta", Args: []gen.Expr{*gen.Var("zz_first"), *gen.Str("k")}})
		default:
			c.Prog.Vars = append(c.Prog.Vars,
				gen.VarDecl{Type: "string", Name: "zz_fwd", Fn: "meta", Args: []gen.Expr{*gen.Var("zz_later"), *gen.Str("k")}},
				gen.VarDecl{Type: "account", Name: "zz_later"})
			c.In.Vars["zz_later"] = "a"
			d.Certain = false // an implementation may well resolve a forward reference: only a cycle must fail
		}
		d.Allowed = []string{"unknown-name"}
	case "unknown-function-statement":
		insertStmt(r, c, gen.Stmt{K: "call", Fn: core.Pick(r, []string{"frobnicate", "balance", "meta", "set_meta"}), Args: []gen.Expr{*gen.Acc("a"), *gen.Asset("USD")}})
		d.Allowed = []string{"unknown-name"}
	case "unknown-function-origin":
		c.Prog.Vars = append(c.Prog.Vars, gen.VarDecl{Type: core.Pick(r, []string{"monetary", "account", "asset", "number", "portion", "string"}), Name: "zz_unk", Fn: core.Pick(r, []string{"nofn", "set_tx_meta", "balances"}), Args: []gen.Expr{*gen.Acc("a"), *gen.Asset("USD")}})
		d.Allowed = []string{"unknown-name"}
	case "bad-arity":
		switch r.IntN(4) {
		case 0:
			insertStmt(r, c, gen.Stmt{K: "call", Fn: "set_tx_meta", Args: []gen.Expr{*gen.Str("k")}})
		case 1:
			insertStmt(r, c, gen.Stmt{K: "call", Fn: "set_account_meta", Args: []gen.Expr{*gen.Acc("a"), *gen.Str("k"), *gen.Num("1"), *gen.Num("2")}})
		case 2:
			c.Prog.Vars = append(c.Prog.Vars, gen.VarDecl{Type: "monetary", Name: "zz_ar", Fn: "balance", Args: []gen.Expr{*gen.Acc("a")}})
		default:
			c.Prog.Vars = append(c.Prog.Vars, gen.VarDecl{Type: "string", Name: "zz_ar", Fn: "meta", Args: []gen.Expr{*gen.Acc("a"), *gen.Str("k"), *gen.Str("x")}})
		}
		d.Allowed = []string{"wrong-arity"}
	case "wrong-type-expression":
		// a variable of another type, declared on the spot
		wrongVar := func(types ...string) *gen.Expr {
			t := core.Pick(r, types)
			name := "zz_wt_" + t
			c.Prog.Vars = append(c.Prog.Vars, gen.VarDecl{Type: t, Name: name})
			c.In.Vars[name] = map[string]string{"account": "a", "asset": "USD", "number": "7", "monetary": "USD 7", "portion": "1/2", "string": "s"}[t]
			return gen.Var(name)
		}
		switch r.IntN(5) {
		case 4:
			// arithmetic on something that is neither a number nor a monetary, on either side
			sl := exprSlots(c, "amt")
			if len(sl) == 0 {
				return d, false
			}
			bad := core.Pick(r, []*gen.Expr{wrongVar("account", "asset", "portion", "string"), gen.Acc("a"), gen.Str("x"), gen.Asset("USD"), gen.Por("1/2")})
			e := &gen.Expr{K: core.Pick(r, []string{"add", "sub"}), L: bad, R: gen.Num("1")}
			if r.IntN(3) == 0 {
				e.L, e.R = e.R, e.L
			}
			sl[r.IntN(len(sl))].set(e)
			d.Allowed = []string{"wrong-type"}
			return d, true
		case 0:
			// an allotment whose portion is a variable of another type (top level: always evaluated)
			ss := stmtsOf(c, func(s *gen.Stmt) bool { return s.K == "send" })
			if len(ss) == 0 {
				return d, false
			}
			s := &c.Prog.Stmts[ss[r.IntN(len(ss))]]
			head := gen.Allot{K: "var", S: wrongVar("monetary", "number", "account", "asset", "string").S}
			if r.IntN(2) == 0 && !s.All {
				s.Src = &gen.Src{K: "allot", Items: []gen.SrcItem{{A: head, From: gen.Src{K: "acc", E: gen.Acc("world")}}, {A: gen.Allot{K: "rem"}, From: gen.Src{K: "acc", E: gen.Acc("world")}}}}
			} else {
				s.Dst = &gen.Dst{K: "allot", Items: []gen.DstItem{{A: head, To: gen.KoD{D: &gen.Dst{K: "acc", E: gen.Acc("a")}}}, {A: gen.Allot{K: "rem"}, To: gen.KoD{Kept: true}}}}
			}
			d.Allowed = []string{"wrong-type"}
			return d, true
		case 1:
			sl := exprSlots(c, "amt")
			if len(sl) == 0 {
				return d, false
			}
			sl[r.IntN(len(sl))].set(wrongVar("account", "asset", "number", "portion", "string"))
			d.Allowed = []string{"wrong-type"}
			return d, true
		case 2:
			sl := exprSlots(c, "acc")
			if len(sl) == 0 {
				return d, false
			}
			sl[r.IntN(len(sl))].set(wrongVar("monetary", "asset", "number", "portion", "string"))
			d.Allowed = []string{"wrong-type"}
			return d, true
		}
		if r.IntN(2) == 0 {
			sl := exprSlots(c, "amt")
			if len(sl) == 0 {
				return d, false
			}
			sl[r.IntN(len(sl))].set(core.Pick(r, []*gen.Expr{gen.Acc("a"), gen.Num("5"), gen.Str("x"), gen.Asset("USD"), gen.Por("1/2")}))
		} else {
			sl := exprSlots(c, "acc")
			if len(sl) == 0 {
				return d, false
			}
			sl[r.IntN(len(sl))].set(core.Pick(r, []*gen.Expr{gen.Num("42"), gen.Str("x"), gen.Asset("USD"), gen.Mon(gen.Asset("USD"), gen.Num("1")), gen.Por("10%")}))
		}
		d.Allowed = []string{"wrong-type"}
	case "negative-amount":
		ss := stmtsOf(c, func(s *gen.Stmt) bool { return (s.K == "send" || s.K == "save") && !s.All })
		if len(ss) == 0 {
			return d, false
		}
		s := &c.Prog.Stmts[ss[r.IntN(len(ss))]]
		a := stmtAsset(s, c)
		if a == "" {
			a = "USD"
		}
		if r.IntN(2) == 0 {
			s.Amt = gen.Mon(gen.Asset(a), gen.Num(fmt.Sprint(-1-r.IntN(50))))
		} else {
			c.Prog.Vars = append(c.Prog.Vars, gen.VarDecl{Type: "monetary", Name: "zz_neg"})
			c.In.Vars["zz_neg"] = fmt.Sprintf("%s -%d", a, 1+r.IntN(1000))
			s.Amt = gen.Var("zz_neg")
		}
		d.Allowed = []string{"negative-amount"}
	case "mismatched-asset":
		ss := stmtsOf(c, func(s *gen.Stmt) bool { return s.K == "send" })
		if len(ss) == 0 {
			return d, false
		}
		s := &c.Prog.Stmts[ss[r.IntN(len(ss))]]
		a := stmtAsset(s, c)
		if a == "" {
			return d, false
		}
		bad := gen.Mon(gen.Asset(otherAsset(a)), gen.Num(fmt.Sprint(1+r.IntN(50))))
		switch r.IntN(4) {
		case 0:
			old := *s.Src
			s.Src = &gen.Src{K: "cap", E: bad, Subs: []gen.Src{old}}
		case 1:
			s.Src = &gen.Src{K: "seq", Subs: []gen.Src{{K: "bnd", E: gen.Acc("a"), B: bad}, *s.Src}}
		case 2:
			if s.All {
				return d, false
			}
			// the sum or the difference of two monetaries of different assets, either way round
			s.Amt = &gen.Expr{K: core.Pick(r, []string{"add", "sub", "sub"}), L: gen.Mon(gen.Asset(a), gen.Num("100")), R: bad}
			if r.IntN(3) == 0 {
				s.Amt.L, s.Amt.R = s.Amt.R, s.Amt.L
			}
		default:
			old := *s.Dst
			s.Dst = &gen.Dst{K: "seq", Clauses: []gen.DstClause{{Cap: *bad, To: gen.KoD{D: &gen.Dst{K: "acc", E: gen.Acc("b")}}}}, Rem: &gen.KoD{D: &old}}
		}
		d.Allowed = []string{"mismatched-asset"}
	case "bad-allotment-sum":
		ss := stmtsOf(c, func(s *gen.Stmt) bool { return s.K == "send" })
		if len(ss) == 0 {
			return d, false
		}
		s := &c.Prog.Stmts[ss[r.IntN(len(ss))]]
		p1, p2 := gen.Allot{K: "lit", S: "1/2"}, gen.Allot{K: "lit", S: core.Pick(r, []string{"1/3", "3/4", "10%"})}
		if r.IntN(2) == 0 {
			c.Prog.Vars = append(c.Prog.Vars, gen.VarDecl{Type: "portion", Name: "zz_pa"}, gen.VarDecl{Type: "portion", Name: "zz_pb"})
			c.In.Vars["zz_pa"], c.In.Vars["zz_pb"] = "1/2", core.Pick(r, []string{"1/3", "60%", "0%"})
			p1, p2 = gen.Allot{K: "var", S: "zz_pa"}, gen.Allot{K: "var", S: "zz_pb"}
		}
		if r.IntN(2) == 0 && !s.All {
			s.Src = &gen.Src{K: "allot", Items: []gen.SrcItem{{A: p1, From: gen.Src{K: "acc", E: gen.Acc("world")}}, {A: p2, From: gen.Src{K: "acc", E: gen.Acc("world")}}}}
		} else {
			s.Dst = &gen.Dst{K: "allot", Items: []gen.DstItem{{A: p1, To: gen.KoD{D: &gen.Dst{K: "acc", E: gen.Acc("a")}}}, {A: p2, To: gen.KoD{Kept: true}}}}
		}
		d.Allowed = []string{"invalid-portion"}
	case "zero-denominator-portion":
		ss := stmtsOf(c, func(s *gen.Stmt) bool { return s.K == "send" })
		if len(ss) == 0 {
			return d, false
		}
		s := &c.Prog.Stmts[ss[r.IntN(len(ss))]]
		z := gen.Allot{K: "lit", S: core.Pick(r, []string{"1/0", "0/0", "5 / 0"})}
		if r.IntN(2) == 0 && !s.All {
			s.Src = &gen.Src{K: "allot", Items: []gen.SrcItem{{A: z, From: gen.Src{K: "acc", E: gen.Acc("world")}}, {A: gen.Allot{K: "rem"}, From: gen.Src{K: "acc", E: gen.Acc("world")}}}}
		} else {
			s.Dst = &gen.Dst{K: "allot", Items: []gen.DstItem{{A: z, To: gen.KoD{D: &gen.Dst{K: "acc", E: gen.Acc("a")}}}, {A: gen.Allot{K: "rem"}, To: gen.KoD{D: &gen.Dst{K: "acc", E: gen.Acc("b")}}}}}
		}
		d.Allowed = []string{"invalid-portion"}
	case "insufficient-funds":
		ss := stmtsOf(c, func(s *gen.Stmt) bool { return s.K == "send" && !s.All })
		if len(ss) == 0 {
			return d, false
		}
		s := &c.Prog.Stmts[ss[r.IntN(len(ss))]]
		a := stmtAsset(s, c)
		if a == "" {
			a = "USD"
		}
		need := 1 + r.IntN(500)
		s.Amt = gen.Mon(gen.Asset(a), gen.Num(fmt.Sprint(need)))
		poor := fmt.Sprintf("poor%d", r.IntN(1000000))
		s.Src = &gen.Src{K: "acc", E: gen.Acc(poor)}
		have := r.IntN(need)
		delete(c.In.Balances, poor)
		if r.IntN(3) != 0 {
			c.In.Balances[poor] = map[string]string{a: fmt.Sprint(have)}
		}
		switch r.IntN(3) {
		case 0:
			// a second, empty account (never the same account twice: double counting of a repeated source is C01's subject)
			s.Src = &gen.Src{K: "seq", Subs: []gen.Src{*s.Src, {K: "acc", E: gen.Acc("poorer")}}}
		case 1:
			s.Src = &gen.Src{K: "cap", E: gen.Mon(gen.Asset(a), gen.Num(fmt.Sprint(need+5))), Subs: []gen.Src{*s.Src}}
		}
		d.Allowed = []string{"insufficient-funds"}
	case "missing-metadata":
		c.Prog.Vars = append(c.Prog.Vars, gen.VarDecl{Type: core.Pick(r, []string{"string", "account", "number"}), Name: "zz_mm", Fn: "meta", Args: []gen.Expr{*gen.Acc(core.Pick(r, []string{"a", "nobody"})), *gen.Str("absent_key")}})
		d.Allowed = []string{"missing-metadata"}
	case "negative-balance":
		c.Prog.Vars = append(c.Prog.Vars, gen.VarDecl{Type: "monetary", Name: "zz_nb", Fn: "balance", Args: []gen.Expr{*gen.Acc("indebted"), *gen.Asset("USD")}})
		c.In.Balances["indebted"] = map[string]string{"USD": fmt.Sprint(-1 - r.IntN(1000))}
		d.Allowed = []string{"negative-balance", "negative-amount"}
	case "overdraft-without-flag":
		c.Prog.Vars = append(c.Prog.Vars, gen.VarDecl{Type: "monetary", Name: "zz_od", Fn: "overdraft", Args: []gen.Expr{*gen.Acc("a"), *gen.Asset("USD")}})
		c.In.Flags = nil
		d.Allowed = []string{"experimental-feature"}
	case "invalid-send-all-source":
		var src gen.Src
		switch r.IntN(3) {
		case 0:
			src = gen.Src{K: "acc", E: gen.Acc("world")}
		case 1:
			src = gen.Src{K: "unb", E: gen.Acc("a")}
		default:
			src = gen.Src{K: "allot", Items: []gen.SrcItem{{A: gen.Allot{K: "lit", S: "1/2"}, From: gen.Src{K: "acc", E: gen.Acc("a")}}, {A: gen.Allot{K: "rem"}, From: gen.Src{K: "acc", E: gen.Acc("b")}}}}
		}
		insertStmt(r, c, gen.Stmt{K: "send", All: true, Amt: gen.Asset("USD"), Src: &src, Dst: &gen.Dst{K: "acc", E: gen.Acc("b")}})
		d.Allowed = []string{"invalid-send-all-source"}
	}
	return d, true
}

// nestedBad returns an account-position expression that cannot be an account,
// and the causes the failure may name.
func nestedBad(r *rand.Rand, c *gen.PI) (*gen.Expr, []string) {
	switch r.IntN(4) {
	case 0:
		return gen.Var("nope_nested"), []string{"unknown-name"}
	case 1:
		return core.Pick(r, []*gen.Expr{gen.Num("42"), gen.Str("x"), gen.Asset("USD"), gen.Por("10%"), gen.Mon(gen.Asset("USD"), gen.Num("1"))}), []string{"wrong-type"}
	case 2:
		t := core.Pick(r, []string{"monetary", "number", "portion", "string", "asset"})
		name := "zz_nw_" + t
		c.Prog.Vars = append(c.Prog.Vars, gen.VarDecl{Type: t, Name: name})
		c.In.Vars[name] = map[string]string{"asset": "USD", "number": "7", "monetary": "USD 7", "portion": "1/2", "string": "s"}[t]
		return gen.Var(name), []string{"wrong-type"}
	default:
		// an account variable that was never given a value
		c.Prog.Vars = append(c.Prog.Vars, gen.VarDecl{Type: "account", Name: "zz_nm"})
		delete(c.In.Vars, "zz_nm")
		return gen.Var("zz_nm"), []string{"missing-variable"}
	}
}
