//go:build verif

package c10

import (
	"fmt"
	"math/big"
	"strings"

	"github.com/formancehq/numscript/internal/verifsim/core"
	"github.com/formancehq/numscript/internal/verifsim/gen"
)

// Two oracles that do not depend on how the store answers. They exist because
// an interpreter that simply reads 0 for a balance it forgot to request gives
// the same (wrong) result under every store behaviour:
//
//   - redundant early requests: appending `monetary $zz = balance(@a, X)` for
//     the (account, asset) pairs the script draws from must not change the
//     outcome - if it does, a balance that influences the result had not been
//     requested (or an early answer is not kept);
//   - origin values: the value of a balance()/overdraft() variable, made
//     visible through an appended set_tx_meta, is the ledger's balance.

type resolver struct {
	c        Case
	decls    map[string]gen.VarDecl
	withDebt bool // sourcePairs also lists pairs whose ledger balance is negative
}

func newResolver(c Case) *resolver {
	r := &resolver{c: c, decls: map[string]gen.VarDecl{}}
	for _, v := range c.Prog.Vars {
		if _, dup := r.decls[v.Name]; !dup {
			r.decls[v.Name] = v
		}
	}
	return r
}

// str resolves an expression to the text of its value when that is knowable
// without running anything: literals, plain variables, meta() variables.
func (r *resolver) str(e *gen.Expr, depth int) (string, bool) {
	if e == nil || depth > 4 {
		return "", false
	}
	switch e.K {
	case "acc", "asset", "str":
		return e.S, true
	case "var":
		d, ok := r.decls[e.S]
		if !ok {
			return "", false
		}
		if d.Fn == "" {
			v, ok := r.c.In.Vars[d.Name]
			return v, ok
		}
		if d.Fn == "meta" && len(d.Args) == 2 {
			a, ok1 := r.str(&d.Args[0], depth+1)
			k, ok2 := r.str(&d.Args[1], depth+1)
			if ok1 && ok2 {
				v, ok := r.c.In.Meta[a][k]
				return v, ok
			}
		}
	}
	return "", false
}

// assetOf resolves the asset of a send/save statement.
func (r *resolver) assetOf(s *gen.Stmt) (string, bool) {
	e := s.Amt
	if e == nil {
		return "", false
	}
	if s.All {
		return r.str(e, 0)
	}
	for e != nil && (e.K == "add" || e.K == "sub") {
		e = e.L
	}
	if e == nil {
		return "", false
	}
	if e.K == "mon" {
		return r.str(e.L, 0)
	}
	if e.K == "var" {
		d, ok := r.decls[e.S]
		if !ok {
			return "", false
		}
		switch {
		case d.Fn == "balance" || d.Fn == "overdraft":
			if len(d.Args) == 2 {
				return r.str(&d.Args[1], 0)
			}
		default:
			if v, ok := r.str(e, 0); ok {
				parts := strings.Split(v, " ")
				if len(parts) == 2 {
					return parts[0], true
				}
			}
		}
	}
	return "", false
}

type pair struct{ acc, asset string }

func accountLexable(a string) bool {
	if a == "" || a == "world" {
		return false
	}
	for _, seg := range strings.Split(a, ":") {
		if seg == "" {
			return false
		}
		for _, c := range seg {
			if !(c >= 'a' && c <= 'z' || c >= 'A' && c <= 'Z' || c >= '0' && c <= '9' || c == '_' || c == '-') {
				return false
			}
		}
	}
	return true
}

func assetLexable(a string) bool {
	if a == "" {
		return false
	}
	letter := false
	for _, c := range a {
		if !(c >= 'A' && c <= 'Z' || c >= '0' && c <= '9' || c == '/') {
			return false
		}
		letter = letter || c >= 'A' && c <= 'Z'
	}
	// without a letter the lexer reads a number ("2") or a portion ("1/2") first
	return letter
}

func (r *resolver) truth(p pair) *big.Int {
	if s, ok := r.c.In.Balances[p.acc][p.asset]; ok {
		v, _ := new(big.Int).SetString(s, 10)
		return v
	}
	return big.NewInt(0)
}

// sourcePairs lists the (account, asset) pairs the script draws from.
func (r *resolver) sourcePairs() []pair {
	seen := map[pair]bool{}
	var out []pair
	add := func(e *gen.Expr, asset string) {
		a, ok := r.str(e, 0)
		if !ok || !accountLexable(a) || !assetLexable(asset) {
			return
		}
		p := pair{a, asset}
		if !seen[p] && (r.withDebt || r.truth(p).Sign() >= 0) {
			seen[p] = true
			out = append(out, p)
		}
	}
	var walk func(s *gen.Src, asset string)
	walk = func(s *gen.Src, asset string) {
		switch s.K {
		case "acc", "bnd":
			add(s.E, asset)
		}
		for i := range s.Subs {
			walk(&s.Subs[i], asset)
		}
		for i := range s.Items {
			walk(&s.Items[i].From, asset)
		}
	}
	for i := range r.c.Prog.Stmts {
		s := &r.c.Prog.Stmts[i]
		asset, ok := r.assetOf(s)
		if !ok {
			continue
		}
		switch s.K {
		case "send":
			if s.Src != nil {
				walk(s.Src, asset)
			}
		case "save":
			add(s.Acc, asset)
		}
	}
	return out
}

// withEarlyRequests appends a balance() origin for every source pair.
func withEarlyRequests(c Case) (Case, int) {
	r := newResolver(c)
	// a pair in debt cannot be read with balance() (it fails, by design); overdraft() reads it,
	// behind its feature flag: usable when the case already runs with the flag, or when the
	// script does not call overdraft() at all (the flag then gates nothing in it)
	flag, usesOD := false, false
	for _, f := range c.In.Flags {
		flag = flag || f == gen.FlagOverdraft
	}
	for _, v := range c.Prog.Vars {
		usesOD = usesOD || v.Fn == "overdraft"
	}
	r.withDebt = flag || !usesOD
	pairs := r.sourcePairs()
	if len(pairs) == 0 {
		return c, 0
	}
	n := c
	n.Prog = c.Prog.Clone()
	debt := false
	for i, p := range pairs {
		fn := "balance"
		if r.truth(p).Sign() < 0 {
			fn, debt = "overdraft", true
		}
		n.Prog.Vars = append(n.Prog.Vars, gen.VarDecl{Type: "monetary", Name: fmt.Sprintf("zz_pre%d", i), Fn: fn, Args: []gen.Expr{*gen.Acc(p.acc), *gen.Asset(p.asset)}})
	}
	if debt && !flag {
		n.In = c.In.Clone()
		n.In.Flags = append(n.In.Flags, gen.FlagOverdraft)
	}
	return n, len(pairs)
}

// withProbes appends set_tx_meta("zz_probe_<var>", $var) for every
// balance()/overdraft() variable whose arguments resolve, with the value the
// ledger dictates.
func withProbes(c Case) (Case, map[string]string) {
	r := newResolver(c)
	want := map[string]string{}
	n := c
	n.Prog = c.Prog.Clone()
	seen := map[string]bool{}
	for _, v := range c.Prog.Vars {
		if seen[v.Name] {
			delete(want, "zz_probe_"+v.Name) // duplicate declarations: ambiguous
			continue
		}
		seen[v.Name] = true
		if (v.Fn != "balance" && v.Fn != "overdraft") || len(v.Args) != 2 {
			continue
		}
		a, ok1 := r.str(&v.Args[0], 0)
		as, ok2 := r.str(&v.Args[1], 0)
		if !ok1 || !ok2 || a == "world" {
			continue
		}
		t := r.truth(pair{a, as})
		val := new(big.Int).Set(t)
		if v.Fn == "overdraft" {
			if t.Sign() > 0 {
				val = big.NewInt(0)
			} else {
				val.Neg(t)
			}
		}
		key := "zz_probe_" + v.Name
		want[key] = as + " " + val.String()
		n.Prog.Stmts = append(n.Prog.Stmts, gen.Stmt{K: "call", Fn: "set_tx_meta", Args: []gen.Expr{*gen.Str(key), *gen.Var(v.Name)}})
	}
	return n, want
}

func checkProbes(txMeta []string, want map[string]string) string {
	got := map[string]string{}
	for _, e := range txMeta {
		// "key"=Type:"value"
		i := strings.Index(e, "=")
		if i < 0 {
			continue
		}
		k := strings.Trim(e[:i], "\"")
		v := e[i+1:]
		if j := strings.Index(v, ":"); j >= 0 {
			v = strings.Trim(v[j+1:], "\"")
		}
		got[k] = v
	}
	for _, k := range core.SortedKeys(want) {
		if got[k] != want[k] {
			return fmt.Sprintf("variable %s holds %q, the ledger says %q", strings.TrimPrefix(k, "zz_probe_"), got[k], want[k])
		}
	}
	return ""
}

// withOriginsAsPlain replaces balance()/overdraft() variables by plain variables holding the value
// the ledger dictates. An origin only reads: learning a balance early must have no effect other
// than the variable's value, so the outcome must not change (a request that corrupts, ages or
// shadows what later statements read shows here under every store behaviour alike).
func withOriginsAsPlain(c Case) (Case, int) {
	r := newResolver(c)
	seen := map[string]bool{}
	for _, v := range c.Prog.Vars {
		if seen[v.Name] {
			return c, 0 // duplicate declarations: which one counts is not this oracle's business
		}
		seen[v.Name] = true
	}
	flag := false
	for _, f := range c.In.Flags {
		flag = flag || f == gen.FlagOverdraft
	}
	n := c
	n.Prog = c.Prog.Clone()
	n.In = c.In.Clone()
	k := 0
	for i, v := range c.Prog.Vars {
		if (v.Fn != "balance" && v.Fn != "overdraft") || len(v.Args) != 2 || v.Type != "monetary" {
			continue
		}
		if v.Fn == "overdraft" && !flag {
			continue // fails with the experimental-feature error: left as it is
		}
		a, ok1 := r.str(&v.Args[0], 0)
		as, ok2 := r.str(&v.Args[1], 0)
		if !ok1 || !ok2 || !assetLexable(as) || (a != "world" && !accountLexable(a)) {
			continue
		}
		t := r.truth(pair{a, as})
		if a == "world" {
			t = big.NewInt(0) // never requested: reads as nothing
		}
		val := new(big.Int).Set(t)
		if v.Fn == "balance" && t.Sign() < 0 {
			continue // fails with the negative-balance error: left as it is
		}
		if v.Fn == "overdraft" {
			if t.Sign() > 0 {
				val = big.NewInt(0)
			} else {
				val.Neg(t)
			}
		}
		n.Prog.Vars[i] = gen.VarDecl{Type: "monetary", Name: v.Name}
		n.In.Vars[v.Name] = as + " " + val.String()
		k++
	}
	return n, k
}

// readBack builds a script of its own that does nothing but read, through balance() origins,
// the (account, asset) pairs the case's script draws from, and publish them as transaction
// metadata: whatever the case's script does with them, a balance asked for is the ledger's.
func readBack(c Case) (Case, map[string]string) {
	r := newResolver(c)
	pairs := r.sourcePairs()
	if len(pairs) == 0 {
		return c, nil
	}
	n := c
	n.Prog = gen.Program{}
	n.In = c.In.Clone()
	n.In.Vars = map[string]string{}
	want := map[string]string{}
	for i, p := range pairs {
		name := fmt.Sprintf("zz_rb%d", i)
		n.Prog.Vars = append(n.Prog.Vars, gen.VarDecl{Type: "monetary", Name: name, Fn: "balance", Args: []gen.Expr{*gen.Acc(p.acc), *gen.Asset(p.asset)}})
		n.Prog.Stmts = append(n.Prog.Stmts, gen.Stmt{K: "call", Fn: "set_tx_meta", Args: []gen.Expr{*gen.Str("zz_probe_" + name), *gen.Var(name)}})
		want["zz_probe_"+name] = p.asset + " " + r.truth(p).String()
	}
	return n, want
}
