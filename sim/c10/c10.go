//go:build verif

// Package c10: results depend only on the balances asked for, never on how
// the store answers. One interpreter run against SimStore is the simulated
// system; the store conversation is the history; the store behaviour, chosen
// call by call from the case's seed, is the configuration / fault space.
package c10

import (
	"context"
	"encoding/json"
	"fmt"
	"github.com/formancehq/numscript/internal/interpreter"
	"math/rand/v2"
	"strings"

	"github.com/formancehq/numscript/internal/verifsim/core"
	"github.com/formancehq/numscript/internal/verifsim/exec"
	"github.com/formancehq/numscript/internal/verifsim/gen"
	"github.com/formancehq/numscript/internal/verifsim/store"
)

type Case struct {
	gen.PI
	ModesSeed uint64   `json:"modes_seed"`
	Modes     []string `json:"modes"` // store behaviours compared (all by default; the minimiser narrows to two)
	NoMeta    bool     `json:"no_metamorphic,omitempty"`
	// Warm, when set, are the variables of a run made on the same ParseResult BEFORE the
	// compared runs (other accounts, other assets): which balances are requested is decided
	// per run, from this run's values, not remembered from an earlier one.
	Warm map[string]string `json:"warm_up_vars,omitempty"`
}

type ModeRun struct {
	Mode    string
	Outcome exec.Outcome
	Calls   int
	World   bool
	Log     []string
	Shape   string
	Omitted int
}

type Result struct {
	InDomain  bool
	Why       string
	Runs      []ModeRun
	Violation *core.Violation
	Trace     *core.Trace
	Extra     int
	Probed    int
}

const modeStaticDirect = "static-direct"

func metaModeFor(seed uint64, mode string) string {
	return []string{"exact", "account", "all"}[core.Derive(seed, "meta/"+mode, 0)%3]
}

// Execute is a pure function of the case and the code under test.
func Execute(c Case, keepTrace bool) Result {
	tr := core.NewTrace(keepTrace)
	text := c.Prog.Text()
	tr.Add("script %s", text)
	p := exec.Parse(text)
	if !p.InDomain {
		return Result{InDomain: false, Why: p.Why, Trace: tr}
	}
	res := Result{InDomain: true, Trace: tr}
	modes := c.Modes
	if len(modes) == 0 {
		modes = store.AllModes
	}
	if len(c.Modes) == 0 {
		modes = append(append([]string{}, modes...), modeStaticDirect)
	}
	if c.Warm != nil {
		w := c.In.Clone()
		w.Vars = c.Warm
		wst := store.New(w, store.Plan{Mode: store.ModeExact, MetaMode: "exact", Seed: c.ModesSeed})
		wo := exec.Run(context.Background(), p.PR, exec.CopyVars(w), wst, exec.Flags(w))
		tr.Add("[warm-up with other variables] outcome %s", wo.Canon())
	}
	for _, m := range modes {
		if m == modeStaticDirect {
			// the repository's own StaticStore value handed over as it is, not behind the
			// simulated store's type: what the CLI and every embedding test does
			st := interpreter.StaticStore{Balances: store.ParseBalances(c.In.Balances), Meta: store.CopyMeta(c.In.Meta)}
			out := exec.Run(context.Background(), p.PR, exec.CopyVars(c.In), st, exec.Flags(c.In))
			tr.Add("[%s] outcome %s", m, out.Canon())
			res.Runs = append(res.Runs, ModeRun{Mode: m, Outcome: out})
			continue
		}
		plan := store.Plan{Mode: m, Shared: false, MetaMode: metaModeFor(c.ModesSeed, m), Seed: core.Derive(c.ModesSeed, "plan/"+m, 0)}
		st := store.New(c.In, plan)
		out := exec.Run(context.Background(), p.PR, exec.CopyVars(c.In), st, exec.Flags(c.In))
		mr := ModeRun{Mode: m, Outcome: out, Calls: st.Calls(), World: st.WorldAsked, Log: st.LogLines(), Shape: st.ShapeKey()}
		for _, l := range mr.Log {
			tr.Add("[%s] %s", m, l)
		}
		tr.Add("[%s] outcome %s", m, out.Canon())
		res.Runs = append(res.Runs, mr)
	}
	// oracle 2: @world is never requested
	for _, r := range res.Runs {
		if r.World {
			res.Violation = &core.Violation{Property: "C10", Oracle: "no-world-request", Class: "world-requested",
				Detail: fmt.Sprintf("store mode %s received a balance query for @world: %s", r.Mode, strings.Join(r.Log, " | "))}
			return res
		}
	}
	// oracles 3 and 4 (independent of the store's behaviour): redundant early
	// requests change nothing; balance()/overdraft() variables hold the ledger's value
	exactRun := func(cc Case) (exec.Outcome, bool) {
		pp := exec.Parse(cc.Prog.Text())
		if !pp.InDomain {
			return exec.Outcome{}, false
		}
		st := store.New(cc.In, store.Plan{Mode: store.ModeExact, MetaMode: "exact", Seed: c.ModesSeed})
		out := exec.Run(context.Background(), pp.PR, exec.CopyVars(cc.In), st, exec.Flags(cc.In))
		if st.WorldAsked {
			out.Err = "store was asked for @world"
		}
		return out, true
	}
	if !c.NoMeta {
		if c2, n := withEarlyRequests(c); n > 0 {
			if o2, ok := exactRun(c2); ok {
				res.Extra++
				tr.Add("[early-requests x%d] outcome %s", n, o2.Canon())
				if base0 := res.Runs[0]; base0.Mode == store.ModeExact && o2.Canon() != base0.Outcome.Canon() {
					res.Violation = &core.Violation{Property: "C10", Oracle: "requested-before-used", Class: "early-requests-change-result", Predicate: Predicate(c),
						Detail: fmt.Sprintf("appending balance() variables for the %d (account, asset) pairs the script draws from changes the outcome: without %s ; with %s", n, core.Truncate(base0.Outcome.Canon(), 400), core.Truncate(o2.Canon(), 400))}
					return res
				}
			}
		}
		if c4, n := withOriginsAsPlain(c); n > 0 {
			if o4, ok := exactRun(c4); ok {
				res.Extra++
				tr.Add("[origins-as-plain x%d] outcome %s", n, o4.Canon())
				if base0 := res.Runs[0]; base0.Mode == store.ModeExact && o4.Canon() != base0.Outcome.Canon() {
					res.Violation = &core.Violation{Property: "C10", Oracle: "requested-before-used", Class: "origin-request-has-a-side-effect", Predicate: Predicate(c),
						Detail: fmt.Sprintf("replacing %d balance()/overdraft() variable(s) by plain variables holding the ledger's value changes the outcome: with the origins %s ; with plain variables %s", n, core.Truncate(base0.Outcome.Canon(), 400), core.Truncate(o4.Canon(), 400))}
					return res
				}
			}
		}
		if c5, want := readBack(c); len(want) > 0 {
			if o5, ok := exactRun(c5); ok {
				res.Extra++
				msg := ""
				if !o5.OK() {
					msg = "reading the balances back fails: " + core.Truncate(o5.Canon(), 300)
				} else {
					msg = checkProbes(o5.TxMeta, want)
				}
				if msg != "" {
					res.Violation = &core.Violation{Property: "C10", Oracle: "requested-before-used", Class: "balance-read-back-wrong", Predicate: Predicate(c),
						Detail: "a script that only reads, through balance(), the (account, asset) pairs this case draws from, against a store answering exactly what is asked: " + msg}
					return res
				}
			}
		}
		if c3, want := withProbes(c); len(want) > 0 {
			if o3, ok := exactRun(c3); ok && o3.OK() {
				res.Extra++
				res.Probed += len(want)
				if msg := checkProbes(o3.TxMeta, want); msg != "" {
					res.Violation = &core.Violation{Property: "C10", Oracle: "requested-before-used", Class: "origin-value-wrong", Predicate: Predicate(c),
						Detail: "against a store answering exactly what is asked, " + msg}
					return res
				}
			}
		}
	}
	// oracle 1: answer independence
	base := res.Runs[0]
	for _, r := range res.Runs[1:] {
		if r.Outcome.Canon() != base.Outcome.Canon() {
			res.Violation = &core.Violation{Property: "C10", Oracle: "answer-independence", Class: "outcome-differs",
				Predicate: Predicate(c),
				Detail:    fmt.Sprintf("store mode %q gives %s ; store mode %q gives %s", base.Mode, core.Truncate(base.Outcome.Canon(), 400), r.Mode, core.Truncate(r.Outcome.Canon(), 400))}
			return res
		}
	}
	return res
}

// Predicate names the class of the (minimised) case for known-findings matching.
func Predicate(c Case) string {
	// reads-world-balance: an origin asks for the balance/overdraft of @world,
	// which is never requested and so can only come from an unrequested store entry.
	worldVars := map[string]bool{}
	for _, v := range c.Prog.Vars {
		if v.Type == "account" && v.Fn == "" && c.In.Vars[v.Name] == "world" {
			worldVars[v.Name] = true
		}
	}
	for _, v := range c.Prog.Vars {
		if (v.Fn == "balance" || v.Fn == "overdraft") && len(v.Args) > 0 {
			a := v.Args[0]
			if (a.K == "acc" && a.S == "world") || (a.K == "var" && worldVars[a.S]) {
				return "reads-world-balance"
			}
		}
	}
	return ""
}

func bias(r *rand.Rand, p *gen.Profile) {
	// conversation-heavy: origins, save, variables
	if r.IntN(3) != 0 {
		p.POrigin = []float64{0.5, 0.8}[r.IntN(2)]
		if p.MaxVars < 2 {
			p.MaxVars = 2 + r.IntN(4)
		}
	}
	p.PWrongAsset = 0
}

// warmVars: the case's plain variables with other accounts and other assets.
func warmVars(r *rand.Rand, g *gen.G) map[string]string {
	out := map[string]string{}
	for k, v := range g.In.Vars {
		out[k] = v
	}
	other := func(asset string) string {
		for {
			if a := gen.AssetPool[r.IntN(len(gen.AssetPool))]; a != asset {
				return a
			}
		}
	}
	for _, v := range g.Prog.Vars {
		cur, ok := out[v.Name]
		if v.Fn != "" || !ok {
			continue
		}
		switch v.Type {
		case "account":
			out[v.Name] = g.Accts[r.IntN(len(g.Accts))]
		case "asset":
			out[v.Name] = other(cur)
		case "monetary":
			if parts := strings.SplitN(cur, " ", 2); len(parts) == 2 {
				out[v.Name] = other(parts[0]) + " " + parts[1]
			}
		}
	}
	return out
}

func candidates(c Case) []Case {
	var out []Case
	if c.Warm != nil {
		n := c
		n.Warm = nil
		out = append(out, n)
	}
	// narrow to the two differing modes first
	if len(c.Modes) == 0 || len(c.Modes) > 2 {
		ms := c.Modes
		if len(ms) == 0 {
			ms = append(append([]string{}, store.AllModes...), modeStaticDirect)
		}
		for i := 0; i < len(ms); i++ {
			for j := i + 1; j < len(ms); j++ {
				n := c
				n.Modes = []string{ms[i], ms[j]}
				out = append(out, n)
			}
		}
	}
	for _, pi := range c.PI.Candidates() {
		n := c
		n.PI = pi
		out = append(out, n)
	}
	return out
}

func Worker(o core.WorkerOpts) *core.Report {
	l := core.NewLoop(o)
	distinct := &core.HashSet{}
	shapes := &core.HashSet{}
	l.Run(func(i int64, caseSeed uint64) {
		r := core.NewRand(caseSeed)
		prof := gen.DrawProfile(r)
		bias(r, &prof)
		g := gen.Generate(r, prof)
		c := Case{PI: gen.PI{Prog: g.Prog, In: g.In}, ModesSeed: r.Uint64()}
		if r.IntN(5) == 0 {
			c.Warm = warmVars(r, g)
		} else if r.IntN(12) == 0 {
			// account and asset VALUES no literal can spell (only variables carry them), ambiguous
			// when joined: (X, Y/Z) against (X/Y, Z)
			c.PI = gen.OddNames(r, c.PI)
			l.Rep.Reach["odd_account_and_asset_values"]++
		}
		l.Current(caseSeed, c)
		res := Execute(c, false)
		l.NoteTrace(res.Trace.Hash())
		if !res.InDomain {
			l.Rep.Skipped++
			l.Rep.Reach["skipped/"+firstWord(res.Why)]++
			return
		}
		l.Rep.Evaluations += int64(len(res.Runs) + res.Extra)
		l.Rep.Reach["early_request_and_probe_runs"] += int64(res.Extra)
		l.Rep.Reach["origin_values_checked"] += int64(res.Probed)
		exact := res.Runs[0]
		l.Rep.Steps["store_calls"] += int64(exact.Calls)
		for _, mr := range res.Runs {
			l.Rep.Steps["store_calls_all_modes"] += int64(mr.Calls)
		}
		if exact.Calls >= 2 {
			l.Rep.Reach["second_store_call_in_one_run"]++
		}
		if exact.Calls >= 3 {
			l.Rep.Reach["three_or_more_store_calls"]++
		}
		if exact.Outcome.OK() && len(exact.Outcome.Postings) > 0 {
			l.Rep.Reach["run_with_postings"]++
			if exact.Calls >= 2 {
				l.Rep.Reach["postings_after_two_or_more_calls"]++
			}
		}
		if exact.Outcome.ErrType != "" {
			l.Rep.Reach["err/"+exact.Outcome.ErrType]++
		}
		if exact.Outcome.Panic != "" {
			l.Rep.Reach["panic_same_in_all_modes"]++
		}
		nontrivial := exact.Calls >= 1 && (len(exact.Outcome.Postings) > 0 || exact.Outcome.ErrType == "MissingFundsErr" || exact.Outcome.ErrType == "NegativeBalanceError")
		if nontrivial {
			l.Rep.Nontrivial++
			distinct.Add(core.HashJSON(c.PI))
			shapes.Add(core.Hash64([]byte(exact.Shape)))
		}
		if i%50000 == 7 || len(l.Rep.Samples) == 0 && nontrivial {
			l.Sample(map[string]any{"script": c.Prog.Text(), "inputs": c.In, "exact_mode_conversation": exact.Log, "outcome": exact.Outcome.Canon()})
		}
		if res.Violation != nil {
			v := *res.Violation
			if !l.ShouldReport(v) {
				return
			}
			min, used := core.Minimise(c, candidates, func(n Case) bool {
				rr := Execute(n, false)
				return rr.InDomain && rr.Violation != nil && rr.Violation.Signature() == v.Signature()
			}, 3000)
			fr := Execute(min, true)
			if fr.Violation == nil {
				// the verdict did not repeat on the minimised case (the code under test keeps
				// state across runs): report the original case with the verdict first seen
				fr = Execute(c, true)
				min = c
				if fr.Violation == nil {
					fr.Violation = &v
				}
			}
			mv := *fr.Violation
			mv.Predicate = Predicate(min)
			l.AddReplay(mv, caseSeed, min, c, fr.Trace.Events, fr.Trace.Hash(), used, "controlled")
		}
	})
	l.Rep.SaveHashes(o.OutDir, "nontrivial_cases", distinct)
	l.Rep.SaveHashes(o.OutDir, "call_logs", shapes)
	return l.Rep
}

func firstWord(s string) string {
	if i := strings.IndexAny(s, ": "); i > 0 {
		return s[:i]
	}
	return s
}

// Replay executes a replay file's case; returns the violation found (if any).
func Replay(raw json.RawMessage) (*core.Violation, *core.Trace, error) {
	var c Case
	if err := json.Unmarshal(raw, &c); err != nil {
		return nil, nil, err
	}
	res := Execute(c, true)
	if res.Violation != nil {
		res.Violation.Predicate = Predicate(c)
	}
	return res.Violation, res.Trace, nil
}
