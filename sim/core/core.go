//go:build verif

// Package core holds what every simulation engine shares: the single seeded
// PRNG, seed derivation, trace hashing, worker reports and the generic
// minimiser. Nothing in here reads a clock, the environment or ranges over a
// Go map without sorting; the only clock reads are in the worker budget loop
// (deciding *how many* cases are run, never what a case does).
package core

import (
	"crypto/sha256"
	"encoding/binary"
	"encoding/hex"
	"encoding/json"
	"fmt"
	"hash/fnv"
	"math/rand/v2"
	"os"
	"sort"
	"time"
)

// SplitMix64 step; used to derive independent sub-seeds from one integer.
func SplitMix(x uint64) uint64 {
	x += 0x9e3779b97f4a7c15
	z := x
	z = (z ^ (z >> 30)) * 0xbf58476d1ce4e5b9
	z = (z ^ (z >> 27)) * 0x94d049bb133111eb
	return z ^ (z >> 31)
}

// Derive mixes a base seed with a label and an index.
func Derive(seed uint64, label string, idx uint64) uint64 {
	h := fnv.New64a()
	h.Write([]byte(label))
	x := SplitMix(seed ^ h.Sum64())
	return SplitMix(x + idx*0x9e3779b97f4a7c15)
}

// NewRand returns the PCG stream for one case. Everything a case decides is
// drawn from this stream and then written into the explicit case value.
func NewRand(seed uint64) *rand.Rand {
	return rand.New(rand.NewPCG(seed, SplitMix(seed)))
}

// Pick returns a uniformly chosen element.
func Pick[T any](r *rand.Rand, xs []T) T {
	return xs[r.IntN(len(xs))]
}

// Chance is true with probability p.
func Chance(r *rand.Rand, p float64) bool { return r.Float64() < p }

// Weighted picks an index with probability proportional to w[i].
func Weighted(r *rand.Rand, w []float64) int {
	t := 0.0
	for _, x := range w {
		t += x
	}
	if t <= 0 {
		return 0
	}
	v := r.Float64() * t
	for i, x := range w {
		if v < x {
			return i
		}
		v -= x
	}
	return len(w) - 1
}

// SortedKeys returns the keys of a string-keyed map in sorted order. The
// harness never ranges over a map directly.
func SortedKeys[V any](m map[string]V) []string {
	ks := make([]string, 0, len(m))
	for k := range m {
		ks = append(ks, k)
	}
	sort.Strings(ks)
	return ks
}

// Hash64 of arbitrary bytes (FNV-1a), used for distinct-case counting.
func Hash64(b []byte) uint64 {
	h := fnv.New64a()
	h.Write(b)
	return h.Sum64()
}

// HashJSON hashes the canonical JSON encoding of v (encoding/json sorts map
// keys, struct fields are in declaration order).
func HashJSON(v any) uint64 {
	b, err := json.Marshal(v)
	if err != nil {
		panic(err)
	}
	return Hash64(b)
}

func ShortHash(b []byte) string {
	s := sha256.Sum256(b)
	return hex.EncodeToString(s[:6])
}

// Trace is an append-only event log of one execution; its hash is what the
// determinism self-test compares across processes.
type Trace struct {
	Events []string
	keep   bool
	h      [32]byte
	n      int
}

func NewTrace(keep bool) *Trace { return &Trace{keep: keep} }

func (t *Trace) Add(format string, args ...any) {
	s := fmt.Sprintf(format, args...)
	if t.keep {
		t.Events = append(t.Events, s)
	}
	hh := sha256.New()
	hh.Write(t.h[:])
	hh.Write([]byte(s))
	copy(t.h[:], hh.Sum(nil))
	t.n++
}

func (t *Trace) Hash() string { return hex.EncodeToString(t.h[:8]) }
func (t *Trace) Len() int     { return t.n }

// Violation is one failed oracle on one (minimised) case.
type Violation struct {
	Property  string `json:"property"`
	Oracle    string `json:"oracle"`
	Class     string `json:"class"`     // discriminator inside the oracle, kept by the minimiser
	Predicate string `json:"predicate"` // named predicate over the minimised case, for known-findings matching ("" if none)
	Detail    string `json:"detail"`
}

func (v Violation) Signature() string { return v.Oracle + "/" + v.Class }

// Replay is what is written to /verif/replays: everything needed to execute
// the failing case again in a fresh process.
type Replay struct {
	Property   string          `json:"property"`
	Seed       uint64          `json:"seed"`
	CaseSeed   uint64          `json:"case_seed"`
	Violation  Violation       `json:"violation"`
	Case       json.RawMessage `json:"case"`
	Original   json.RawMessage `json:"original_case,omitempty"`
	Trace      []string        `json:"trace"`
	TraceHash  string          `json:"trace_hash"`
	SourceHash string          `json:"source_hash"`
	Shrinks    int             `json:"shrink_executions"`
	Schedule   string          `json:"schedule"` // "controlled" | "uncontrolled"
	// where in which worker's deterministic case sequence the violation was found: lets the
	// driver re-run that sequence when the case alone does not reproduce in a fresh process
	// (state that the code under test keeps in package-level variables across cases)
	Worker  int    `json:"worker"`
	Workers int    `json:"workers"`
	Tier    string `json:"tier"`
	Step    int64  `json:"step"`
	Mode    string `json:"mode,omitempty"`
	Note    string `json:"note,omitempty"`
}

// Report is what one worker writes for the driver to merge.
type Report struct {
	Property    string            `json:"property"`
	Seed        uint64            `json:"seed"`
	Worker      int               `json:"worker"`
	WorkerSeed  uint64            `json:"worker_seed"`
	Evaluations int64             `json:"evaluations"` // executions of the code under test
	Cases       int64             `json:"cases"`
	Nontrivial  int64             `json:"nontrivial"`
	Skipped     int64             `json:"skipped_outside_domain"`
	Steps       map[string]int64  `json:"logical_steps"`
	Faults      map[string]int64  `json:"faults_injected"`
	Reach       map[string]int64  `json:"reach"`
	Distinct    map[string]int64  `json:"distinct"` // per-measure distinct counts inside this worker
	Samples     []any             `json:"samples"`
	Replays     []Replay          `json:"replays"`
	TraceDigest string            `json:"trace_digest"` // hash over all per-case trace hashes, in order
	HashFiles   map[string]string `json:"hash_files"`
	WallS       float64           `json:"wall_s"`
	Note        string            `json:"note,omitempty"`
	HarnessErr  string            `json:"harness_error,omitempty"`
}

func NewReport(prop string, seed uint64, worker int, wseed uint64) *Report {
	return &Report{Property: prop, Seed: seed, Worker: worker, WorkerSeed: wseed,
		Steps: map[string]int64{}, Faults: map[string]int64{}, Reach: map[string]int64{}, Distinct: map[string]int64{}, HashFiles: map[string]string{}}
}

func (r *Report) Write(path string) error {
	b, err := json.Marshal(r)
	if err != nil {
		return err
	}
	return os.WriteFile(path, b, 0o644)
}

// HashSet accumulates 64-bit hashes cheaply; Finish sorts and de-duplicates.
type HashSet struct{ xs []uint64 }

func (s *HashSet) Add(h uint64) { s.xs = append(s.xs, h) }
func (s *HashSet) Finish() []uint64 {
	sort.Slice(s.xs, func(i, j int) bool { return s.xs[i] < s.xs[j] })
	out := s.xs[:0]
	var last uint64
	for i, x := range s.xs {
		if i == 0 || x != last {
			out = append(out, x)
		}
		last = x
	}
	s.xs = out
	return out
}
func (s *HashSet) Len() int { return len(s.xs) }

func WriteHashes(path string, xs []uint64) error {
	b := make([]byte, 8*len(xs))
	for i, x := range xs {
		binary.LittleEndian.PutUint64(b[8*i:], x)
	}
	return os.WriteFile(path, b, 0o644)
}

func ReadHashes(path string) ([]uint64, error) {
	b, err := os.ReadFile(path)
	if err != nil {
		return nil, err
	}
	xs := make([]uint64, len(b)/8)
	for i := range xs {
		xs[i] = binary.LittleEndian.Uint64(b[8*i:])
	}
	return xs, nil
}

// CountDistinctFiles merges sorted hash files and returns the size of the union.
func CountDistinctFiles(paths []string) (int64, error) {
	var all []uint64
	for _, p := range paths {
		xs, err := ReadHashes(p)
		if err != nil {
			return 0, err
		}
		all = append(all, xs...)
	}
	hs := HashSet{xs: all}
	return int64(len(hs.Finish())), nil
}

// Minimise runs a greedy fixpoint over one-step shrink candidates. stillFails
// must execute the candidate and report whether the same oracle fails with
// the same signature. budget bounds the number of executions.
func Minimise[C any](c C, candidates func(C) []C, stillFails func(C) bool, budget int) (C, int) {
	used := 0
	// a wall-clock bound as well: it only decides how small the reported case gets, never the
	// verdict (the case found is a failing case at every point of the descent)
	start := time.Now()
	for {
		progressed := false
		for _, cand := range candidates(c) {
			if used >= budget || time.Since(start) > 25*time.Second {
				return c, used
			}
			used++
			if stillFails(cand) {
				c = cand
				progressed = true
				break
			}
		}
		if !progressed {
			return c, used
		}
	}
}

// SaveHashes writes one measure's distinct hashes for the driver to union.
func (r *Report) SaveHashes(outDir string, measure string, hs *HashSet) {
	xs := hs.Finish()
	r.Distinct[measure] = int64(len(xs))
	if outDir == "" {
		return
	}
	p := fmt.Sprintf("%s/hashes.%s.%d.bin", outDir, measure, r.Worker)
	if err := WriteHashes(p, xs); err != nil {
		r.HarnessErr = err.Error()
		return
	}
	r.HashFiles[measure] = p
}
