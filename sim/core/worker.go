//go:build verif

package core

import (
	"crypto/sha256"
	"encoding/hex"
	"encoding/json"
	"fmt"
	"os"
	"sync/atomic"
	"time"
)

// WorkerOpts is what the driver passes to every worker process.
type WorkerOpts struct {
	Property   string
	Seed       uint64
	Worker     int
	Workers    int
	BudgetS    float64 // wall-clock budget; decides how many cases run, never what a case does
	MaxCases   int64   // >0: run exactly this many cases (determinism self-test)
	Tier       string
	OutDir     string
	SourceHash string
	Mode       string // engine specific (e.g. C11: det | race)
	KeepTrace  bool
	Bin        string // path of the numscript binary built from the working tree (C19 subprocess tier, C20)
	UpTo       int64  // >= 0: run loop steps 0..UpTo and stop (sequence replay of a worker's history)
}

// Loop drives a worker: it calls step(i, caseSeed) for i = 0,1,2.. until the
// budget is used. The wall clock is consulted only here.
type Loop struct {
	Opts    WorkerOpts
	Rep     *Report
	start   time.Time
	digest  [32]byte
	seen    map[string]int // violation signature -> count
	MaxRepl int
	StepNow int64
	cur     *os.File
	stepNow atomic.Int64
	Stop    bool // set by an engine when the process is no longer usable (leaked blocked goroutines)
}

func NewLoop(o WorkerOpts) *Loop {
	ws := Derive(o.Seed, o.Property+"/worker", uint64(o.Worker))
	return &Loop{Opts: o, Rep: NewReport(o.Property, o.Seed, o.Worker, ws), start: time.Now(), seen: map[string]int{}, MaxRepl: 4}
}

// stallLimit: no case of any engine takes more than a few seconds on code that behaves (the
// longest legitimate waits are the 60 s watchdogs of C11 and C20 for code that does not).
const stallLimit = 200 * time.Second

func (l *Loop) Run(step func(i int64, caseSeed uint64)) {
	if l.Opts.OutDir != "" {
		// a case that never ends (the code under test loops, or computes for ever) cannot be
		// interrupted from inside: the process says so in the words the driver looks for and
		// exits; the case is in current.<worker>.json
		go func() {
			last, since := int64(-1), time.Now()
			for {
				time.Sleep(2 * time.Second)
				now := l.stepNow.Load()
				if now != last {
					last, since = now, time.Now()
					continue
				}
				if time.Since(since) > stallLimit {
					fmt.Fprintf(os.Stderr, "fatal error: verif watchdog: the case at step %d did not finish within %s\n", now, stallLimit)
					os.Exit(3)
				}
			}
		}()
	}
	for i := int64(0); ; i++ {
		l.StepNow = i
		l.stepNow.Store(i)
		if l.Opts.UpTo >= 0 {
			if i > l.Opts.UpTo {
				break
			}
		} else if l.Opts.MaxCases > 0 {
			if i >= l.Opts.MaxCases {
				break
			}
		} else if time.Since(l.start).Seconds() >= l.Opts.BudgetS {
			break
		}
		if l.Stop {
			break
		}
		step(i, Derive(l.Rep.WorkerSeed, "case", uint64(i)))
		l.Rep.Cases++
	}
	l.Rep.WallS = time.Since(l.start).Seconds()
	l.Rep.TraceDigest = hex.EncodeToString(l.digest[:8])
}

// Elapsed is used by engines only to bound the minimiser.
func (l *Loop) Elapsed() float64 { return time.Since(l.start).Seconds() }

// NoteTrace folds one case's trace hash into the worker digest.
func (l *Loop) NoteTrace(h string) {
	hh := sha256.New()
	hh.Write(l.digest[:])
	hh.Write([]byte(h))
	copy(l.digest[:], hh.Sum(nil))
}

// ShouldReport says whether a violation with this signature still deserves a
// minimised replay (the first few per signature do; the rest are counted).
func (l *Loop) ShouldReport(v Violation) bool {
	k := v.Signature()
	l.seen[k]++
	l.Rep.Reach["violations_seen/"+k]++
	return l.seen[k] <= 1 && len(l.Rep.Replays) < l.MaxRepl
}

func (l *Loop) AddReplay(v Violation, caseSeed uint64, c any, original any, trace []string, traceHash string, shrinks int, schedule string) {
	cb, _ := json.Marshal(c)
	var ob []byte
	if original != nil {
		ob, _ = json.Marshal(original)
	}
	l.Rep.Replays = append(l.Rep.Replays, Replay{
		Worker: l.Opts.Worker, Workers: l.Opts.Workers, Tier: l.Opts.Tier, Step: l.StepNow, Mode: l.Opts.Mode,
		Property: l.Opts.Property, Seed: l.Opts.Seed, CaseSeed: caseSeed, Violation: v,
		Case: cb, Original: ob, Trace: trace, TraceHash: traceHash, SourceHash: l.Opts.SourceHash,
		Shrinks: shrinks, Schedule: schedule,
	})
}

func (l *Loop) Sample(v any) {
	if len(l.Rep.Samples) < 3 {
		l.Rep.Samples = append(l.Rep.Samples, v)
	}
}

func Truncate(s string, n int) string {
	if len(s) <= n {
		return s
	}
	return s[:n] + fmt.Sprintf("...(+%d bytes)", len(s)-n)
}

// Current records the case about to be executed in <outdir>/current.<worker>.json. A fatal
// runtime error in the code under test (stack exhaustion, concurrent map writes, out of
// memory) cannot be recovered: the process is gone, and the driver finds the case here.
func (l *Loop) Current(caseSeed uint64, c any) {
	if l.Opts.OutDir == "" {
		return
	}
	if l.cur == nil {
		f, err := os.OpenFile(fmt.Sprintf("%s/current.%d.json", l.Opts.OutDir, l.Opts.Worker), os.O_CREATE|os.O_RDWR|os.O_TRUNC, 0o644)
		if err != nil {
			return
		}
		l.cur = f
	}
	b, err := json.Marshal(map[string]any{"case_seed": caseSeed, "step": l.StepNow, "case": c})
	if err != nil {
		return
	}
	l.cur.Truncate(0)
	l.cur.WriteAt(b, 0)
}
