//go:build verif

// Package c20: the CLI reports exactly what the library computes. The
// simulator owns the process environment of the real binary built from the
// working tree: which channel each input travels through, how stdin is
// chunked, the files in the working directory, and it observes exit status,
// stdout and stderr. The library, called in-process, is the reference model.
// There is no schedule and no clock in this property.
package c20

import (
	"bytes"
	"context"
	"encoding/json"
	"fmt"
	"math/big"
	"math/rand/v2"
	"os"
	osexec "os/exec"
	"path/filepath"
	"regexp"
	"sort"
	"strings"
	"syscall"
	"time"

	"github.com/formancehq/numscript"
	"github.com/formancehq/numscript/internal/analysis"
	"github.com/formancehq/numscript/internal/interpreter"
	"github.com/formancehq/numscript/internal/verifsim/c12"
	"github.com/formancehq/numscript/internal/verifsim/core"
	"github.com/formancehq/numscript/internal/verifsim/exec"
	"github.com/formancehq/numscript/internal/verifsim/gen"
	"github.com/formancehq/numscript/internal/verifsim/store"
)

type Case struct {
	Cmd        string     `json:"cmd"` // check | run
	Text       string     `json:"text"`
	In         gen.Inputs `json:"inputs"`
	Channels   []string   `json:"channels"` // run: raw stdin files split
	Chunks     []int      `json:"chunks"`   // stdin chunk sizes, cyclic; empty = one write
	TrailingNL bool       `json:"trailing_newline"`
	FlagForm   int        `json:"flag_form,omitempty"`  // how the boolean feature flag is spelled on the command line
	LeadingWS  string     `json:"leading_ws,omitempty"` // JSON white space in front of the stdin payload (a heredoc, echo " $X")
	FileName   string     `json:"file_name"`
	Split      []string   `json:"split,omitempty"` // channel of script, variables, balances, metadata in the "split" configuration
	AbsPath    bool       `json:"abs_path"`
	PipeFiles  bool       `json:"pipe_files,omitempty"` // file arguments are pipes (/dev/stdin, /dev/fd/N), not regular files
}

type Result struct {
	InDomain   bool
	Why        string
	Violation  *core.Violation
	Trace      *core.Trace
	Invoked    int
	Probes     map[string]int
	Nontrivial bool
	HarnessErr string
}

func viol(oracle, class, detail string) *core.Violation {
	return &core.Violation{Property: "C20", Oracle: oracle, Class: class, Predicate: class, Detail: detail}
}

type procOut struct {
	exit   int
	stdout string
	stderr string
}

func invoke(bin, dir string, args []string, stdin []byte, chunks []int, extra ...[]byte) (procOut, error) {
	cmd := osexec.Command(bin, args...)
	// extra[i] is delivered through a pipe the child finds as descriptor 3+i (/dev/fd/3+i):
	// what `numscript run <(make-script) -v <(make-vars)` gives the program
	var extraR, extraW []*os.File
	for range extra {
		r, w, err := os.Pipe()
		if err != nil {
			return procOut{}, err
		}
		extraR, extraW = append(extraR, r), append(extraW, w)
		cmd.ExtraFiles = append(cmd.ExtraFiles, r)
	}
	defer func() {
		for _, r := range extraR {
			r.Close()
		}
	}()
	cmd.Dir = dir
	cmd.Env = append(os.Environ(), "NO_COLOR=")
	var so, se bytes.Buffer
	cmd.Stdout, cmd.Stderr = &so, &se
	var w *os.File
	if stdin != nil && len(chunks) == 1 && chunks[0] == -1 {
		// a regular file on descriptor 0:  numscript run --stdin < input.json
		f, err := os.CreateTemp(dir, "stdin-*.json")
		if err != nil {
			return procOut{}, err
		}
		defer os.Remove(f.Name())
		defer f.Close()
		if _, err := f.Write(stdin); err != nil {
			return procOut{}, err
		}
		if _, err := f.Seek(0, 0); err != nil {
			return procOut{}, err
		}
		cmd.Stdin = f
	} else if stdin != nil && len(chunks) == 1 && chunks[0] == -2 {
		// a socket on descriptor 0 (what inetd-style supervisors and some container runtimes give)
		fds, err := syscall.Socketpair(syscall.AF_UNIX, syscall.SOCK_STREAM, 0)
		if err != nil {
			return procOut{}, err
		}
		syscall.CloseOnExec(fds[0]) // the child gets its own copy as descriptor 0 and nothing else
		syscall.CloseOnExec(fds[1])
		r := os.NewFile(uintptr(fds[0]), "stdin-socket")
		cmd.Stdin = r
		w = os.NewFile(uintptr(fds[1]), "stdin-socket-w")
		defer r.Close()
		chunks = nil
	} else if stdin != nil {
		r, pw, err := os.Pipe()
		if err != nil {
			return procOut{}, err
		}
		cmd.Stdin = r
		w = pw
		defer r.Close()
	}
	if err := cmd.Start(); err != nil {
		return procOut{}, err
	}
	for i := range extra {
		extraR[i].Close() // the child has its own copy; a writer then sees EPIPE once the child is gone
		go func(w *os.File, b []byte) {
			w.Write(b)
			w.Close()
		}(extraW[i], extra[i])
	}
	if w != nil {
		go func() {
			b := stdin
			i := 0
			for len(b) > 0 {
				n := len(b)
				if len(chunks) > 0 {
					n = chunks[i%len(chunks)]
					i++
					if n > len(b) {
						n = len(b)
					}
				}
				if _, err := w.Write(b[:n]); err != nil {
					break
				}
				b = b[n:]
			}
			w.Close()
		}()
	}
	done := make(chan error, 1)
	go func() { done <- cmd.Wait() }()
	select {
	case err := <-done:
		out := procOut{stdout: so.String(), stderr: se.String()}
		if err != nil {
			if ee, ok := err.(*osexec.ExitError); ok {
				out.exit = ee.ExitCode()
			} else {
				return out, err
			}
		}
		return out, nil
	case <-time.After(60 * time.Second):
		cmd.Process.Kill()
		return procOut{}, fmt.Errorf("watchdog: CLI did not finish within 60s: %v", args)
	}
}

func firstLine(s string) string {
	if i := strings.Index(s, "\n"); i >= 0 {
		s = s[:i]
	}
	return core.Truncate(s, 200)
}

var ansiRe = regexp.MustCompile("\x1b\\[[0-9;]*m")

// ---- check

type diag struct {
	line, char int
	sev        string
	msg        string
}

func (d diag) String() string { return fmt.Sprintf("%d:%d %s %q", d.line, d.char, d.sev, d.msg) }

func libraryCheck(text string) (ds []diag, errors int, panicked string) {
	defer func() {
		if r := recover(); r != nil {
			panicked = fmt.Sprint(r)
		}
	}()
	res := analysis.CheckSource(text)
	for _, d := range res.Diagnostics {
		sev := "?"
		switch d.Kind.Severity() {
		case analysis.ErrorSeverity:
			sev = "Error"
			errors++
		case analysis.WarningSeverity:
			sev = "Warning"
		case analysis.Information:
			sev = "Info"
		case analysis.Hint:
			sev = "Hint"
		}
		ds = append(ds, diag{d.Range.Start.Line, d.Range.Start.Character, sev, d.Kind.Message()})
	}
	return ds, errors, ""
}

func parseCheckOutput(out, path string) []diag {
	out = ansiRe.ReplaceAllString(out, "")
	lines := strings.Split(out, "\n")
	hdr := regexp.MustCompile("^" + regexp.QuoteMeta(path) + `:(\d+):(\d+) - (Error|Warning|Info|Hint)$`)
	var ds []diag
	for i := 0; i < len(lines); i++ {
		m := hdr.FindStringSubmatch(lines[i])
		if m == nil {
			continue
		}
		var d diag
		fmt.Sscan(m[1], &d.line)
		fmt.Sscan(m[2], &d.char)
		d.sev = m[3]
		var msg []string
		for j := i + 1; j < len(lines) && lines[j] != ""; j++ {
			if hdr.MatchString(lines[j]) {
				break
			}
			msg = append(msg, lines[j])
		}
		d.msg = strings.Join(msg, "\n")
		ds = append(ds, d)
	}
	return ds
}

func multiset(ds []diag) []string {
	var out []string
	for _, d := range ds {
		out = append(out, d.String())
	}
	sort.Strings(out)
	return out
}

func executeCheck(c Case, bin, dir string, res *Result) {
	tr := res.Trace
	name := c.FileName
	if name == "" {
		name = "s.num"
	}
	full := filepath.Join(dir, name)
	if err := os.WriteFile(full, []byte(c.Text), 0o644); err != nil {
		res.HarnessErr = err.Error()
		return
	}
	defer os.Remove(full)
	path := name
	if c.AbsPath {
		path = full
	}
	ds, nerr, panicked := libraryCheck(c.Text)
	var out procOut
	var err error
	if c.PipeFiles {
		// make-script | numscript check /dev/stdin
		path = "/dev/stdin"
		out, err = invoke(bin, dir, []string{"check", path}, []byte(c.Text), nil)
		res.Probes["check_file_is_a_pipe"]++
	} else {
		out, err = invoke(bin, dir, []string{"check", path}, nil, nil)
	}
	res.Invoked++
	if err != nil {
		res.HarnessErr = err.Error()
		return
	}
	tr.Add("check %q -> exit %d printed %v stderr %q ; library: %d diagnostics, %d errors, panic=%v", name, out.exit, multiset(parseCheckOutput(out.stdout, path)), firstLine(out.stderr), len(ds), nerr, panicked != "")
	if panicked != "" {
		if out.exit == 0 {
			res.Violation = viol("check", "exit-zero-where-library-panics", "analysis panics on this text ("+panicked+") but the CLI exits 0")
			return
		}
		res.InDomain = false
		res.Why = "library panics: " + panicked
		return
	}
	res.InDomain = true
	res.Nontrivial = len(ds) > 0
	// a crash is recognised by the Go runtime's own report, not by a particular exit status
	// (the property only distinguishes zero from non-zero)
	if strings.Contains(out.stderr, "panic:") || strings.Contains(out.stderr, "goroutine 1 [") {
		res.Violation = viol("check", "cli-dies-where-library-answers", fmt.Sprintf("exit %d, stderr %s", out.exit, core.Truncate(out.stderr, 400)))
		return
	}
	if (out.exit != 0) != (nerr > 0) {
		res.Violation = viol("check", "exit-status-wrong", fmt.Sprintf("library reports %d error-severity diagnostics (of %d), CLI exit status is %d", nerr, len(ds), out.exit))
		return
	}
	got, want := multiset(parseCheckOutput(out.stdout, path)), multiset(ds)
	if strings.Join(got, "\n") != strings.Join(want, "\n") {
		res.Violation = viol("check", "diagnostics-printed-differ", fmt.Sprintf("CLI printed %v ; library diagnostics are %v", got, want))
		return
	}
	if nerr == 0 && len(ds) > 0 {
		res.Probes["check_warning_only"]++
	}
	if nerr > 0 {
		res.Probes["check_with_errors"]++
	}
	if len(ds) == 0 {
		res.Probes["check_clean"]++
	}
}

// ---- run

func balancesJSON(in gen.Inputs) string {
	// numbers, not strings: the CLI decodes into *big.Int
	var sb strings.Builder
	sb.WriteString("{")
	for i, a := range core.SortedKeys(in.Balances) {
		if i > 0 {
			sb.WriteString(",")
		}
		ab, _ := json.Marshal(a)
		sb.Write(ab)
		sb.WriteString(":{")
		for j, as := range core.SortedKeys(in.Balances[a]) {
			if j > 0 {
				sb.WriteString(",")
			}
			kb, _ := json.Marshal(as)
			sb.Write(kb)
			sb.WriteString(":" + in.Balances[a][as])
		}
		sb.WriteString("}")
	}
	sb.WriteString("}")
	return sb.String()
}

func mustJSON(v any) string {
	b, err := json.Marshal(v)
	if err != nil {
		panic(err)
	}
	return string(b)
}

type libRun struct {
	panicked   string
	parseErr   bool
	parsePanic bool
	out        exec.Outcome
	res        numscript.ExecutionResult
	err        interpreter.InterpreterError
}

func libraryRun(c Case) (lr libRun) {
	p := exec.Parse(c.Text)
	if !p.InDomain {
		lr.parseErr = true
		lr.parsePanic = strings.HasPrefix(p.Why, "parser panic")
		return
	}
	defer func() {
		if r := recover(); r != nil {
			lr.panicked = fmt.Sprint(r)
		}
	}()
	st := interpreter.StaticStore{Balances: store.ParseBalances(c.In.Balances), Meta: store.CopyMeta(c.In.Meta)}
	flags := map[string]struct{}{}
	for _, f := range c.In.Flags {
		flags[f] = struct{}{}
	}
	lr.res, lr.err = p.PR.RunWithFeatureFlags(context.Background(), exec.CopyVars(c.In), st, flags)
	return
}

func checkRunOutput(c Case, ch string, out procOut, lr libRun) *core.Violation {
	where := "channel " + ch + ": "
	if lr.err != nil {
		if out.exit == 0 {
			return viol("run", "exit-zero-on-error", where+"library returns "+lr.err.Error()+" but the CLI exits 0 with stdout "+core.Truncate(out.stdout, 200))
		}
		if !strings.Contains(out.stderr, lr.err.Error()) {
			return viol("run", "error-message-missing", fmt.Sprintf("%slibrary error %q is not in stderr %q", where, lr.err.Error(), core.Truncate(out.stderr, 400)))
		}
		if strings.Contains(out.stdout, "postings") {
			return viol("run", "result-printed-with-error", where+"stdout carries a result next to the error: "+core.Truncate(out.stdout, 300))
		}
		return nil
	}
	if out.exit != 0 {
		return viol("run", "nonzero-exit-on-success", fmt.Sprintf("%slibrary succeeds, CLI exits %d with stderr %s", where, out.exit, core.Truncate(out.stderr, 400)))
	}
	dec := json.NewDecoder(strings.NewReader(out.stdout))
	dec.UseNumber()
	var got struct {
		Postings []struct {
			Source      string      `json:"source"`
			Destination string      `json:"destination"`
			Amount      json.Number `json:"amount"`
			Asset       string      `json:"asset"`
		} `json:"postings"`
		TxMeta       map[string]any               `json:"txMeta"`
		AccountsMeta map[string]map[string]string `json:"accountsMeta"`
	}
	if err := dec.Decode(&got); err != nil {
		return viol("run", "output-not-json", where+"stdout is not the JSON result: "+err.Error()+": "+core.Truncate(out.stdout, 300))
	}
	if len(got.Postings) != len(lr.res.Postings) {
		return viol("run", "postings-differ", fmt.Sprintf("%sCLI printed %d postings, library returns %d", where, len(got.Postings), len(lr.res.Postings)))
	}
	for i, p := range lr.res.Postings {
		g := got.Postings[i]
		amt, ok := new(big.Int).SetString(g.Amount.String(), 10)
		if !ok || g.Source != p.Source || g.Destination != p.Destination || g.Asset != p.Asset || amt.Cmp(p.Amount) != 0 {
			return viol("run", "postings-differ", fmt.Sprintf("%sposting %d: CLI %+v, library %s->%s %s %s", where, i, g, p.Source, p.Destination, p.Asset, p.Amount))
		}
	}
	if len(got.TxMeta) != len(lr.res.Metadata) {
		return viol("run", "tx-metadata-differs", fmt.Sprintf("%sCLI printed %d tx metadata entries, library returns %d", where, len(got.TxMeta), len(lr.res.Metadata)))
	}
	for _, k := range core.SortedKeys(lr.res.Metadata) {
		gv, ok := got.TxMeta[k].(string)
		if !ok || gv != lr.res.Metadata[k].String() {
			return viol("run", "tx-metadata-differs", fmt.Sprintf("%skey %q: CLI %v, library %q", where, k, got.TxMeta[k], lr.res.Metadata[k].String()))
		}
	}
	wantAM := store.CanonMeta(lr.res.AccountsMetadata)
	gotAM := store.CanonMeta(interpreter.AccountsMetadata(got.AccountsMeta))
	if lr.res.AccountsMetadata == nil || len(lr.res.AccountsMetadata) == 0 {
		wantAM = ""
	}
	if len(got.AccountsMeta) == 0 {
		gotAM = ""
	}
	if gotAM != wantAM {
		return viol("run", "accounts-metadata-differs", fmt.Sprintf("%sCLI %s, library %s", where, gotAM, wantAM))
	}
	return nil
}

func executeRun(c Case, bin, dir string, res *Result) {
	tr := res.Trace
	lr := libraryRun(c)
	res.InDomain = true
	whole := fmt.Sprintf(`{"script":%s,"variables":%s,"balances":%s,"metadata":%s}`, mustJSON(c.Text), mustJSON(c.In.Vars), balancesJSON(c.In), mustJSON(c.In.Meta))
	if len(whole) > 65536 {
		res.Probes["run_payload_over_64KiB"]++
	}
	flagArgs := []string{"--output-format", "json"}
	hasOD := false
	for _, f := range c.In.Flags {
		if f == gen.FlagOverdraft {
			hasOD = true
		}
	}
	// a boolean flag can be written in several ways; saying "false" is not giving it
	switch {
	case hasOD && c.FlagForm%3 == 1:
		flagArgs = append(flagArgs, "--"+gen.FlagOverdraft+"=true")
	case hasOD:
		flagArgs = append(flagArgs, "--"+gen.FlagOverdraft)
	case c.FlagForm%3 == 1:
		flagArgs = append(flagArgs, "--"+gen.FlagOverdraft+"=false")
		res.Probes["feature_flag_given_as_false"]++
	case c.FlagForm%3 == 2 && c.FlagForm%2 == 0:
		flagArgs = append([]string{"--" + gen.FlagOverdraft + "=0"}, flagArgs...)
		res.Probes["feature_flag_given_as_false"]++
	}
	write := func(name, content string) string {
		p := filepath.Join(dir, name)
		if err := os.WriteFile(p, []byte(content), 0o644); err != nil {
			res.HarnessErr = err.Error()
		}
		return p
	}
	for _, ch := range c.Channels {
		var args []string
		var stdin []byte
		var extra [][]byte
		switch ch {
		case "raw":
			args = append([]string{"run", "--raw", whole}, flagArgs...)
		case "stdin":
			s := whole
			s = c.LeadingWS + s
			if c.TrailingNL {
				s += "\n"
			}
			stdin = []byte(s)
			args = append([]string{"run", "--stdin"}, flagArgs...)
		case "files":
			if c.PipeFiles {
				extra = [][]byte{[]byte(c.Text), []byte(mustJSON(c.In.Vars)), []byte(balancesJSON(c.In)), []byte(mustJSON(c.In.Meta))}
				args = append([]string{"run", "/dev/fd/3", "-v", "/dev/fd/4", "-b", "/dev/fd/5", "-m", "/dev/fd/6"}, flagArgs...)
				res.Probes["run_files_are_pipes"]++
				break
			}
			write("s.num", c.Text)
			write("v.json", mustJSON(c.In.Vars))
			write("b.json", balancesJSON(c.In))
			write("m.json", mustJSON(c.In.Meta))
			args = append([]string{"run", "s.num", "-v", "v.json", "-b", "b.json", "-m", "m.json"}, flagArgs...)
		case "split":
			// disjoint parts through different channels, assigned from the case: every section
			// (script, variables, balances, metadata) travels through exactly one of
			// raw / stdin / file, so precedence between channels is never in play
			assign := c.Split
			if len(assign) != 4 {
				assign = []string{"file", "raw", "file", "stdin"}
			}
			sections := []string{"script", "variables", "balances", "metadata"}
			values := []string{mustJSON(c.Text), mustJSON(c.In.Vars), balancesJSON(c.In), mustJSON(c.In.Meta)}
			var rawParts, stdinParts []string
			args = []string{"run"}
			fileFlags := []string{"", "-v", "-b", "-m"}
			fileNames := []string{"s.num", "v.json", "b.json", "m.json"}
			for i, ch := range assign {
				switch ch {
				case "raw":
					rawParts = append(rawParts, fmt.Sprintf("%q:%s", sections[i], values[i]))
				case "stdin":
					stdinParts = append(stdinParts, fmt.Sprintf("%q:%s", sections[i], values[i]))
				default:
					if i == 0 {
						write(fileNames[0], c.Text)
						args = append(args, fileNames[0])
					} else {
						write(fileNames[i], values[i])
						args = append(args, fileFlags[i], fileNames[i])
					}
				}
			}
			if len(rawParts) > 0 {
				args = append(args, "--raw", "{"+strings.Join(rawParts, ",")+"}")
			}
			if len(stdinParts) > 0 {
				stdin = []byte(c.LeadingWS + "{" + strings.Join(stdinParts, ",") + "}")
				args = append(args, "--stdin")
			}
			args = append(args, flagArgs...)
		default:
			continue
		}
		if res.HarnessErr != "" {
			return
		}
		if len(strings.Join(args, " ")) > 100000 {
			continue // beyond what an argv can carry
		}
		out, err := invoke(bin, dir, args, stdin, c.Chunks, extra...)
		res.Invoked++
		if err != nil {
			res.HarnessErr = err.Error()
			return
		}
		tr.Add("run via %s -> exit %d stdout %q stderr %q", ch, out.exit, core.Truncate(out.stdout, 500), firstLine(out.stderr))
		if lr.parseErr {
			// the library reports parsing errors for this text: the CLI must not present a result
			if lr.parsePanic || strings.Contains(out.stderr, "panic:") {
				res.InDomain = false
				res.Why = "parser panics"
				continue
			}
			if out.exit == 0 || strings.Contains(out.stdout, "postings") {
				res.Violation = viol("run", "result-for-a-script-with-parse-errors", fmt.Sprintf("channel %s: numscript.Parse reports errors for this text, the CLI exits %d with stdout %s", ch, out.exit, core.Truncate(out.stdout, 200)))
				return
			}
			res.Probes["run_script_with_parse_errors_rejected"]++
			continue
		}
		if lr.panicked != "" {
			if out.exit == 0 {
				res.Violation = viol("run", "exit-zero-where-library-panics", "library panics ("+lr.panicked+") but the CLI exits 0")
				return
			}
			res.InDomain = false
			res.Why = "library panics: " + lr.panicked
			continue
		}
		if strings.Contains(out.stderr, "panic:") || strings.Contains(out.stderr, "goroutine 1 [") {
			res.Violation = viol("run", "cli-dies-where-library-answers", fmt.Sprintf("channel %s: exit %d, stderr %s", ch, out.exit, core.Truncate(out.stderr, 500)))
			return
		}
		if v := checkRunOutput(c, ch, out, lr); v != nil {
			res.Violation = v
			return
		}
		res.Probes["run_via_"+ch]++
	}
	if lr.parseErr {
		res.Nontrivial = res.Invoked > 0
		return
	}
	if lr.panicked == "" {
		if lr.err != nil {
			res.Probes["run_library_error"]++
		} else {
			res.Probes["run_library_success"]++
			if len(lr.res.Metadata) > 0 {
				res.Probes["run_with_tx_metadata"]++
			}
			if len(lr.res.AccountsMetadata) > 0 {
				res.Probes["run_with_accounts_metadata"]++
			}
			for _, p := range lr.res.Postings {
				if p.Amount.BitLen() > 64 {
					res.Probes["cli_amount_beyond_2^64"]++
					break
				}
			}
		}
		res.Nontrivial = lr.err != nil || len(lr.res.Postings) > 0 || len(lr.res.Metadata) > 0 || len(lr.res.AccountsMetadata) > 0
	}
	tr.Add("library: err=%v postings=%d", lr.err, len(lr.res.Postings))
}

var workDir string

func Execute(c Case, keepTrace bool, bin string) Result {
	res := Result{Trace: core.NewTrace(keepTrace), Probes: map[string]int{}}
	if bin == "" {
		res.HarnessErr = "C20 needs the numscript binary (-bin)"
		return res
	}
	if workDir == "" {
		d, err := os.MkdirTemp("", "verif-c20-")
		if err != nil {
			res.HarnessErr = err.Error()
			return res
		}
		workDir = d
	}
	res.Trace.Add("cmd %s text %s", c.Cmd, c.Text)
	if c.Cmd == "check" {
		executeCheck(c, bin, workDir, &res)
	} else {
		executeRun(c, bin, workDir, &res)
	}
	return res
}

func genCase(r *rand.Rand) Case {
	prof := gen.DrawProfile(r)
	if r.IntN(3) == 0 {
		// run
	}
	var c Case
	if r.IntN(5) < 2 {
		c.Cmd = "check"
		g := gen.Generate(r, prof)
		c.Text = g.Prog.Text()
		switch r.IntN(4) {
		case 0: // clean or warning-only as generated
		case 1: // an unused variable: warning only
			g.Prog.Vars = append(g.Prog.Vars, gen.VarDecl{Type: "number", Name: "unused_one"})
			c.Text = g.Prog.Text()
		default:
			for k := 1 + r.IntN(3); k > 0; k-- {
				c.Text = gen.EditText(r, c.Text)
			}
		}
		switch r.IntN(14) {
		case 0:
			c.Text = strings.ReplaceAll(c.Text, "\n", "\r\n")
		case 1:
			c.Text = strings.ReplaceAll(c.Text, "\n  ", "\n\t")
		case 2:
			c.Text = strings.TrimRight(c.Text, "\n")
		case 3:
			c.Text = core.Pick(r, []string{"", "\n", "// only a comment\n", "/* block */", "   \n\n", "vars { }\n"})
		}
		if r.IntN(25) == 0 {
			c.Text = "\ufeff" + c.Text // a byte-order mark, as some editors write
		}
		if r.IntN(12) == 0 {
			// many diagnostics: counts around the boundaries at which an exit status,
			// a byte or a small buffer wraps
			n := core.Pick(r, []int{255, 256, 257, 512, 300})
			var sb strings.Builder
			for i := 0; i < n; i++ {
				fmt.Fprintf(&sb, "set_tx_meta(\"k%d\", $undeclared_%d)\n", i, i%7)
			}
			c.Text = sb.String()
		}
		c.FileName = core.Pick(r, []string{"s.num", "with space.num", "dir.with.dots.num", "ünï.num", "100%.num", "a%sb%d.num", "invoice[1].num", "back\\slash.num", "star*.num", "q?.num", "a[.num", "{x,y}.num", "~tilde.num", "x-dash-.num"})
		c.AbsPath = r.IntN(2) == 0
		c.PipeFiles = r.IntN(12) == 0
		return c
	}
	c.Cmd = "run"
	prof.PWrongAsset = 0.02
	if r.IntN(2) == 0 {
		prof.Safe = true
		prof.PWrongAsset = 0
	}
	prof.PCall = []float64{0.2, 0.5}[r.IntN(2)]
	prof.PBigNum = []float64{0.05, 0.3}[r.IntN(2)]
	g := gen.Generate(r, prof)
	if r.IntN(10) == 0 {
		// account and asset names no literal can spell, as KEYS of the balances and metadata
		// documents too: the library takes any string that arrives through a variable
		pi := gen.OddNames(r, gen.PI{Prog: g.Prog, In: g.In})
		g.Prog, g.In = pi.Prog, pi.In
	}
	c.Text = g.Prog.Text()
	c.In = g.In
	if r.IntN(40) == 0 {
		// a program of zero statements is a program: the library returns an empty result
		g.Prog = gen.Program{Trailer: core.Pick(r, []string{"", " ", "\t", "// nothing to do"})}
		c.Text = core.Pick(r, []string{"", "\n", "  \n\n", g.Prog.Text()})
	}
	// every kind of run-time failure must travel through the CLI: reuse the labelled
	// defects of the C12 engine (only their effect matters here, not their labels)
	if r.IntN(3) == 0 {
		pi := gen.PI{Prog: g.Prog, In: g.In}
		for k := 1 + r.IntN(2); k > 0; k-- {
			c12.ApplyDefect(r, &pi, true)
		}
		if r.IntN(6) == 0 {
			pi.In.Vars = map[string]string{} // no variable supplied at all
		}
		g.Prog, g.In = pi.Prog, pi.In
		c.Text = g.Prog.Text()
		c.In = g.In
	}
	// awkward but legal strings travel through JSON and argv
	for _, v := range g.Prog.Vars {
		if v.Fn == "" && v.Type == "string" && r.IntN(2) == 0 {
			c.In.Vars[v.Name] = core.Pick(r, []string{"say \"hi\"", "[{\"sku\":\"A-1\"},{\"sku\":\"B-7\"}]", "},{", "a,b", "x\r\ny", "tab\there", "back\\slash", "ünïcode ✓", "<html>&amp;", "line\nbreak", ""})
		}
	}
	// the same for asset and account values (they end up inside monetary values and postings)
	usesMeta := strings.Contains(c.Text, "set_tx_meta") || strings.Contains(c.Text, "set_account_meta")
	for _, v := range g.Prog.Vars {
		if v.Fn == "" && v.Type == "asset" && (usesMeta || r.IntN(3) == 0) && r.IntN(3) == 0 {
			c.In.Vars[v.Name] = core.Pick(r, []string{"U\"SD", "EUR\\2", "ÜSD", "A B", "<X>"})
			// and make sure the value reaches the output as part of a monetary
			g.Prog.Stmts = append(g.Prog.Stmts, gen.Stmt{K: "call", Fn: "set_tx_meta", Args: []gen.Expr{*gen.Str("zz_m"), *gen.Mon(gen.Var(v.Name), gen.Num("1"))}})
			c.Text = g.Prog.Text()
		}
		if v.Fn == "" && v.Type == "account" && r.IntN(8) == 0 {
			c.In.Vars[v.Name] = core.Pick(r, []string{"quo\"te", "back\\slash", "ünï", "sp ace"})
		}
	}
	// error paths must carry user-controlled text verbatim: provoke failures whose
	// message quotes a value with characters that are special to printf, shells or JSON
	if r.IntN(4) == 0 {
		special := core.Pick(r, []string{"100%", "%d", "12%s", "5%%x", "%v%v", "a\\nb", "$HOME", "`x`", "x%20y", "'q'"})
		switch r.IntN(3) {
		case 0:
			for _, v := range g.Prog.Vars {
				if v.Fn == "" && (v.Type == "number" || v.Type == "monetary") {
					c.In.Vars[v.Name] = special
					break
				}
			}
		case 1:
			g.Prog.Vars = append(g.Prog.Vars, gen.VarDecl{Type: "string", Name: "zz_sp"})
			c.In.Vars["zz_sp"] = special
			g.Prog.Stmts = append([]gen.Stmt{{K: "send", Amt: gen.Mon(gen.Asset("USD"), gen.Num("1")), Src: &gen.Src{K: "acc", E: gen.Var("zz_sp")}, Dst: &gen.Dst{K: "acc", E: gen.Acc("a")}}}, g.Prog.Stmts...)
			c.Text = g.Prog.Text()
		default:
			key := strings.NewReplacer("\\", "", "\"", "", "`", "").Replace(special)
			g.Prog.Vars = append(g.Prog.Vars, gen.VarDecl{Type: "string", Name: "zz_mk", Fn: "meta", Args: []gen.Expr{*gen.Acc("a"), *gen.Str("absent" + key)}})
			c.Text = g.Prog.Text()
		}
	}
	if r.IntN(8) == 0 {
		// a variables document shared between scripts: entries this script does not declare
		c.In.Vars["zz_not_declared_here"] = core.Pick(r, []string{"1", "x", "C:\\exports\\", "USD 5"})
	}
	if r.IntN(8) == 0 {
		// texts that look like the comment syntax of "relaxed" JSON dialects, after a value that
		// ends in a backslash somewhere earlier in the document
		if c.In.Meta == nil {
			c.In.Meta = map[string]map[string]string{}
		}
		if c.In.Meta["zz:links"] == nil {
			c.In.Meta["zz:links"] = map[string]string{}
		}
		c.In.Meta["zz:links"]["url"] = core.Pick(r, []string{"http://example.com//x", "see /* this */ or // that", "a // b"})
		if r.IntN(2) == 0 {
			c.In.Vars["zz_dir"] = "C:\\exports\\"
		}
	}
	if r.IntN(25) == 0 {
		// a payload larger than any default line or pipe buffer (64 KiB), and below the
		// 128 KiB the kernel allows for one argument: it travels in and comes out again
		g.Prog.Vars = append(g.Prog.Vars, gen.VarDecl{Type: "string", Name: "zz_big"})
		c.In.Vars["zz_big"] = strings.Repeat("0123456789abcdef", core.Pick(r, []int{4200, 5600})) + "END"
		g.Prog.Stmts = append(g.Prog.Stmts, gen.Stmt{K: "call", Fn: "set_tx_meta", Args: []gen.Expr{*gen.Str("zz_big"), *gen.Var("zz_big")}})
		c.Text = g.Prog.Text()
	}
	if r.IntN(30) == 0 {
		c.Text = "\ufeff" + c.Text
	}
	all := []string{"raw", "stdin", "files", "split"}
	n := 2 + r.IntN(3)
	perm := r.Perm(4)
	for i := 0; i < n; i++ {
		c.Channels = append(c.Channels, all[perm[i]])
	}
	sort.Strings(c.Channels)
	for i := 0; i < 4; i++ {
		c.Split = append(c.Split, core.Pick(r, []string{"raw", "stdin", "file"}))
	}
	switch r.IntN(6) {
	case 0:
		c.Chunks = []int{1}
	case 1:
		c.Chunks = []int{1 + r.IntN(7), 1 + r.IntN(64)}
	case 2:
		c.Chunks = []int{4096}
	case 3:
		c.Chunks = []int{-1} // descriptor 0 is a regular file
	case 4:
		c.Chunks = []int{-2} // descriptor 0 is a socket
	}
	c.TrailingNL = r.IntN(2) == 0
	c.FlagForm = r.IntN(6)
	c.PipeFiles = r.IntN(8) == 0
	if r.IntN(5) == 0 {
		c.LeadingWS = core.Pick(r, []string{" ", "\n", "\t", "\r\n", "  \n  "})
	}
	return c
}

func candidates(c Case) []Case {
	var out []Case
	if len(c.Channels) > 1 {
		for i := range c.Channels {
			n := c
			n.Channels = []string{c.Channels[i]}
			out = append(out, n)
		}
	}
	if len(c.Chunks) > 0 {
		n := c
		n.Chunks = nil
		out = append(out, n)
	}
	lines := strings.Split(c.Text, "\n")
	if len(lines) > 1 {
		for i := range lines {
			n := c
			n.Text = strings.Join(append(append([]string{}, lines[:i]...), lines[i+1:]...), "\n")
			out = append(out, n)
		}
	}
	for _, k := range core.SortedKeys(c.In.Balances) {
		n := c
		n.In = c.In.Clone()
		delete(n.In.Balances, k)
		out = append(out, n)
	}
	for _, k := range core.SortedKeys(c.In.Meta) {
		n := c
		n.In = c.In.Clone()
		delete(n.In.Meta, k)
		out = append(out, n)
	}
	return out
}

func Worker(o core.WorkerOpts) *core.Report {
	l := core.NewLoop(o)
	distinct := &core.HashSet{}
	defer func() {
		if workDir != "" {
			os.RemoveAll(workDir)
		}
	}()
	l.Run(func(i int64, caseSeed uint64) {
		r := core.NewRand(caseSeed)
		c := genCase(r)
		res := Execute(c, false, o.Bin)
		l.NoteTrace(res.Trace.Hash())
		if res.HarnessErr != "" {
			l.Rep.HarnessErr = res.HarnessErr
			return
		}
		l.Rep.Evaluations += int64(res.Invoked)
		l.Rep.Steps["cli_invocations"] += int64(res.Invoked)
		for k, v := range res.Probes {
			l.Rep.Reach[k] += int64(v)
		}
		if !res.InDomain && res.Violation == nil {
			l.Rep.Skipped++
			l.Rep.Reach["skipped/"+strings.SplitN(res.Why, ":", 2)[0]]++
			return
		}
		if len(c.Chunks) > 0 && c.Cmd == "run" {
			switch c.Chunks[0] {
			case -1:
				l.Rep.Faults["stdin_is_a_regular_file"]++
			case -2:
				l.Rep.Faults["stdin_is_a_socket"]++
			default:
				l.Rep.Faults["stdin_delivered_in_chunks"]++
			}
		}
		if res.Nontrivial {
			l.Rep.Nontrivial++
			distinct.Add(core.HashJSON(c))
		}
		if i%500 == 1 || len(l.Rep.Samples) == 0 && res.Nontrivial {
			l.Sample(c)
		}
		if res.Violation != nil {
			v := *res.Violation
			if !l.ShouldReport(v) {
				return
			}
			min, used := core.Minimise(c, candidates, func(n Case) bool {
				rr := Execute(n, false, o.Bin)
				return rr.HarnessErr == "" && rr.Violation != nil && rr.Violation.Signature() == v.Signature()
			}, 120)
			fr := Execute(min, true, o.Bin)
			if fr.Violation == nil {
				min = c
				fr = Execute(c, true, o.Bin)
				if fr.Violation == nil {
					fr.Violation = &v
				}
			}
			l.AddReplay(*fr.Violation, caseSeed, min, c, fr.Trace.Events, fr.Trace.Hash(), used, "controlled")
		}
	})
	l.Rep.SaveHashes(o.OutDir, "nontrivial_cases", distinct)
	return l.Rep
}

func Replay(raw json.RawMessage, o core.WorkerOpts) (*core.Violation, *core.Trace, error) {
	var c Case
	if err := json.Unmarshal(raw, &c); err != nil {
		return nil, nil, err
	}
	defer func() {
		if workDir != "" {
			os.RemoveAll(workDir)
		}
	}()
	res := Execute(c, true, o.Bin)
	if res.HarnessErr != "" {
		return nil, nil, fmt.Errorf("%s", res.HarnessErr)
	}
	return res.Violation, res.Trace, nil
}
