//go:build verif

package main

import "github.com/formancehq/numscript/internal/verifsim/c19"

func init() {
	engines["C19"] = engine{worker: c19.Worker, replay: c19.Replay}
}
