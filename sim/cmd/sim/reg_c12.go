//go:build verif

package main

import (
	"encoding/json"

	"github.com/formancehq/numscript/internal/verifsim/c12"
	"github.com/formancehq/numscript/internal/verifsim/core"
)

func init() {
	engines["C12"] = engine{
		worker: c12.Worker,
		replay: func(raw json.RawMessage, _ core.WorkerOpts) (*core.Violation, *core.Trace, error) {
			return c12.Replay(raw)
		},
	}
}
