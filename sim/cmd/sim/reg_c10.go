//go:build verif

package main

import (
	"encoding/json"

	"github.com/formancehq/numscript/internal/verifsim/c10"
	"github.com/formancehq/numscript/internal/verifsim/core"
)

func init() {
	engines["C10"] = engine{
		worker: c10.Worker,
		replay: func(raw json.RawMessage, _ core.WorkerOpts) (*core.Violation, *core.Trace, error) {
			return c10.Replay(raw)
		},
	}
}
