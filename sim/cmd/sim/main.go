//go:build verif

// Command sim is the worker binary of every simulation engine. It is built
// inside a scratch copy of the repository (so that it can import the
// internal packages) by /verif/bin/check.
package main

import (
	"encoding/json"
	"flag"
	"fmt"
	"os"
	"runtime/debug"

	"github.com/formancehq/numscript/internal/verifsim/core"
)

type engine struct {
	worker func(core.WorkerOpts) *core.Report
	replay func(json.RawMessage, core.WorkerOpts) (*core.Violation, *core.Trace, error)
}

var engines = map[string]engine{}

func main() {
	// a runaway recursion in the code under test ends the process after 64 MB of stack instead
	// of 1 GB (the deepest legitimate recursion here, a 330-operator chain, needs kilobytes)
	debug.SetMaxStack(64 << 20)
	var o core.WorkerOpts
	var replay, countDistinct string
	flag.StringVar(&o.Property, "prop", "", "property id")
	flag.Uint64Var(&o.Seed, "seed", 1, "VERIF_SEED")
	flag.IntVar(&o.Worker, "worker", 0, "worker index")
	flag.IntVar(&o.Workers, "workers", 1, "number of workers")
	flag.Float64Var(&o.BudgetS, "budget", 5, "wall-clock budget in seconds")
	flag.Int64Var(&o.MaxCases, "cases", 0, "run exactly this many cases (overrides budget)")
	flag.Int64Var(&o.UpTo, "upto", -1, "run loop steps 0..N and stop (sequence replay)")
	flag.StringVar(&o.Tier, "tier", "quick", "tier")
	flag.StringVar(&o.OutDir, "outdir", "", "scratch directory for worker output")
	flag.StringVar(&o.SourceHash, "srchash", "", "hash of the source tree this binary was built from")
	flag.StringVar(&o.Mode, "mode", "", "engine-specific mode")
	flag.StringVar(&o.Bin, "bin", "", "numscript binary built from the working tree")
	flag.StringVar(&replay, "replay", "", "replay file")
	flag.StringVar(&countDistinct, "count-distinct", "", "comma separated hash files; prints the size of their union")
	flag.Parse()

	if countDistinct != "" {
		n, err := core.CountDistinctFiles(splitComma(countDistinct))
		if err != nil {
			fmt.Fprintln(os.Stderr, "harness error:", err)
			os.Exit(2)
		}
		fmt.Println(n)
		return
	}
	e, ok := engines[o.Property]
	if !ok {
		fmt.Fprintln(os.Stderr, "harness error: unknown property", o.Property)
		os.Exit(2)
	}
	if replay != "" {
		b, err := os.ReadFile(replay)
		if err != nil {
			fmt.Fprintln(os.Stderr, "harness error:", err)
			os.Exit(2)
		}
		var rp core.Replay
		if err := json.Unmarshal(b, &rp); err != nil {
			fmt.Fprintln(os.Stderr, "harness error:", err)
			os.Exit(2)
		}
		v, tr, err := e.replay(rp.Case, o)
		if err != nil {
			fmt.Fprintln(os.Stderr, "harness error:", err)
			os.Exit(2)
		}
		out := map[string]any{"violation": v, "recorded": rp.Violation, "trace_hash": "", "recorded_trace_hash": rp.TraceHash, "recorded_source_hash": rp.SourceHash, "schedule": rp.Schedule}
		if tr != nil {
			out["trace_hash"] = tr.Hash()
			out["trace"] = tr.Events
		}
		b, _ = json.Marshal(out)
		fmt.Println(string(b))
		return
	}
	rep := e.worker(o)
	if o.OutDir == "" {
		b, _ := json.MarshalIndent(rep, "", " ")
		fmt.Println(string(b))
		return
	}
	if err := rep.Write(fmt.Sprintf("%s/report.%d.json", o.OutDir, o.Worker)); err != nil {
		fmt.Fprintln(os.Stderr, "harness error:", err)
		os.Exit(2)
	}
}

func splitComma(s string) []string {
	var out []string
	cur := ""
	for _, c := range s {
		if c == ',' {
			if cur != "" {
				out = append(out, cur)
			}
			cur = ""
		} else {
			cur += string(c)
		}
	}
	if cur != "" {
		out = append(out, cur)
	}
	return out
}
