//go:build verif

package main

import "github.com/formancehq/numscript/internal/verifsim/c20"

func init() {
	engines["C20"] = engine{worker: c20.Worker, replay: c20.Replay}
}
