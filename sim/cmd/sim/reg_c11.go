//go:build verif

package main

import "github.com/formancehq/numscript/internal/verifsim/c11"

func init() {
	engines["C11"] = engine{worker: c11.Worker, replay: c11.Replay}
}
