//go:build verif

package c11

import (
	"fmt"
	"sync/atomic"
	"time"

	"github.com/formancehq/numscript/internal/verifsim/core"
)

// blockWatchdog is how long a parked task waits, without any scheduling step
// happening, before concluding that the running task is blocked on a lock a
// parked task holds. The pinned code takes no lock; a change under test may.
const blockWatchdog = 1500 * time.Millisecond

// Switch is one scheduling decision: at global step At (yields and task exits
// share one counter) hand the processor to task To, if it is runnable.
type Switch struct {
	At int `json:"at"`
	To int `json:"to"`
}

type task struct {
	id       int
	wake     chan struct{}
	done     bool
	started  bool
	body     func()
	lastSite string
	pending  bool // pushed senders not yet reconciled
	yields   int
	fin      atomic.Bool
}

// chooser decides, at a scheduling point, which runnable task continues.
type chooser interface {
	// next returns the id of the task to run (must be runnable), given the
	// step number, the current task (-1 at an exit) and the runnable ids.
	next(step int, cur int, runnable []int) int
}

// recorded replays an explicit switch list.
type recorded struct {
	at map[int]int
}

func newRecorded(sw []Switch) *recorded {
	r := &recorded{at: map[int]int{}}
	for _, s := range sw {
		r.at[s.At] = s.To
	}
	return r
}

func (r *recorded) next(step int, cur int, runnable []int) int {
	if to, ok := r.at[step]; ok {
		for _, id := range runnable {
			if id == to {
				return to
			}
		}
	}
	if cur >= 0 {
		return cur
	}
	return runnable[0]
}

// pct is a PCT-style chooser: fixed random priorities, the running task drops
// to the lowest priority at a few change points.
type pct struct {
	prio    []int
	changes map[int]bool
	low     int
}

func (p *pct) next(step int, cur int, runnable []int) int {
	if cur >= 0 && p.changes[step] {
		p.low--
		p.prio[cur] = p.low
	}
	best := runnable[0]
	for _, id := range runnable {
		if p.prio[id] > p.prio[best] {
			best = id
		}
	}
	return best
}

const maxSteps = 400000

// hangTimeout bounds one case: a case takes milliseconds, the lock diagnosis at most 8 s.
const hangTimeout = 60 * time.Second

type sched struct {
	tasks    []*task
	cur      *task
	ch       chooser
	progress atomic.Int64 // bumped at every scheduling step; read by parked tasks' watchdogs
	blocked  atomic.Bool  // the code under test blocked on a lock: tasks were released to run freely
	// set (before blocked) when, at the moment the running task blocked, every other task that had
	// started was waiting inside its own store call: the block is then not an artefact of parking
	// a task in the middle of interpreter code, it is one run unable to proceed while another run
	// waits for its store -- which a slow store, or a store that answers run B first, produces in
	// any real deployment
	blockedOnStore string
	diag           atomic.Bool
	hung           bool         // the tasks never finished
	left           atomic.Int32 // tasks not yet finished (used once blocked)
	step           int
	switches       int
	main           chan struct{}
	tr             *core.Trace
	rec            []Switch // the switches actually taken
	aborted        bool
	probes         map[string]int
	sites          map[string]int
}

func newSched(ch chooser, tr *core.Trace) *sched {
	return &sched{ch: ch, main: make(chan struct{}, 1), tr: tr, probes: map[string]int{}, sites: map[string]int{}}
}

func (s *sched) add(body func()) *task {
	t := &task{id: len(s.tasks), wake: make(chan struct{}, 1), body: body}
	s.tasks = append(s.tasks, t)
	return t
}

func (s *sched) runnable() []int {
	var out []int
	for _, t := range s.tasks {
		if !t.done {
			out = append(out, t.id)
		}
	}
	return out
}

// yield is installed as hook.YieldFn and as the SimStore yield: the running
// task offers the processor.
func (s *sched) yield(site string) {
	if s.blocked.Load() {
		return
	}
	t := s.cur
	if t == nil || s.aborted {
		return
	}
	s.step++
	s.progress.Add(1)
	t.yields++
	t.lastSite = site
	switch site {
	case "interpreter.programState.pushSender":
		t.pending = true
	case "interpreter.Reconcile", "interpreter.programState.runStatement":
		t.pending = false
	}
	if s.step > maxSteps {
		s.aborted = true
		return
	}
	nid := s.ch.next(s.step, t.id, s.runnable())
	if nid == t.id {
		return
	}
	next := s.tasks[nid]
	s.switches++
	s.rec = append(s.rec, Switch{At: s.step, To: nid})
	s.tr.Add("step %d: task %d parked at %s -> task %d", s.step, t.id, site, nid)
	s.sites[site]++
	if t.pending {
		s.probes["preempted_between_pushSender_and_Reconcile"]++
	}
	if next.started {
		s.probes["switch_between_two_mid_run_tasks"]++
	}
	s.cur = next
	next.started = true
	next.wake <- struct{}{}
	s.park(t)
}

// park waits to be scheduled again. If nothing at all happens for the watchdog
// period the running task must be blocked (the scheduler's yield points are
// dense: every statement): a diagnosis goroutine finds out on whom it waits and
// releases everybody so that whoever holds the lock can finish; the case is abandoned.
func (s *sched) park(t *task) {
	for {
		seen := s.progress.Load()
		select {
		case <-t.wake:
			return
		case <-time.After(blockWatchdog):
			if s.diag.Load() {
				continue // the diagnosis wakes every task when it is done
			}
			if s.progress.Load() == seen && s.diag.CompareAndSwap(false, true) {
				go s.diagnose(seen)
			}
		}
	}
}

// diagnose runs once the running task has made no step for a watchdog period. It first
// confirms that over a much longer period, then releases only the tasks that are parked inside
// a store call (the store seam holds nothing of the interpreter's: it parks exactly where a
// real store would be waiting for its database). If that alone lets the blocked task finish,
// the block was one run unable to proceed while another run waits for its store -- which a slow
// store, or a store that answers the later run first, produces in any real deployment, and
// which never ends if the store's answer depends on the blocked run (re-entrant use).
// Otherwise the block is an artefact of parking a task in the middle of interpreter code
// that holds a lock: no verdict. Either way all tasks are then released to run freely.
func (s *sched) diagnose(seen int64) {
	for k := 0; k < 8; k++ {
		time.Sleep(blockWatchdog / 4)
		if s.progress.Load() != seen {
			s.diag.Store(false) // merely slow
			return
		}
	}
	cur := s.cur
	var waiters []*task
	desc := ""
	for _, o := range s.tasks {
		if o == cur || o.fin.Load() || !o.started {
			continue
		}
		if len(o.lastSite) > 6 && o.lastSite[:6] == "store." {
			waiters = append(waiters, o)
			desc += fmt.Sprintf("task %d waits in %s; ", o.id, o.lastSite)
		}
	}
	s.blocked.Store(true) // from here on yields are no-ops
	if cur != nil && len(waiters) > 0 {
		for _, o := range waiters {
			select {
			case o.wake <- struct{}{}:
			default:
			}
		}
		for k := 0; k < 600 && !cur.fin.Load(); k++ {
			time.Sleep(5 * time.Millisecond)
		}
		if cur.fin.Load() {
			s.blockedOnStore = desc + fmt.Sprintf("task %d (last seen at %s) could not proceed until they were answered", cur.id, cur.lastSite)
		}
	}
	for _, o := range s.tasks {
		select {
		case o.wake <- struct{}{}:
		default:
		}
	}
}

func (s *sched) exit(t *task) {
	t.fin.Store(true)
	if s.blocked.Load() {
		if s.left.Add(-1) == 0 {
			s.main <- struct{}{}
		}
		return
	}
	s.left.Add(-1)
	t.done = true
	s.step++
	s.progress.Add(1)
	run := s.runnable()
	if len(run) == 0 {
		s.cur = nil
		s.main <- struct{}{}
		return
	}
	nid := s.ch.next(s.step, -1, run)
	s.rec = append(s.rec, Switch{At: s.step, To: nid})
	s.tr.Add("step %d: task %d finished -> task %d", s.step, t.id, nid)
	next := s.tasks[nid]
	s.cur = next
	next.started = true
	next.wake <- struct{}{}
}

// run executes all tasks to completion under the chooser. Exactly one task
// goroutine is runnable at any instant.
func (s *sched) run() {
	if len(s.tasks) == 0 {
		return
	}
	s.left.Store(int32(len(s.tasks)))
	for _, t := range s.tasks {
		t := t
		go func() {
			s.park(t)
			defer s.exit(t)
			t.body()
		}()
	}
	s.step++
	first := s.ch.next(s.step, -1, s.runnable())
	s.rec = append(s.rec, Switch{At: s.step, To: first})
	s.cur = s.tasks[first]
	s.cur.started = true
	s.cur.wake <- struct{}{}
	select {
	case <-s.main:
	case <-time.After(hangTimeout):
		s.hung = true
		return
	}
	if s.aborted {
		// a very long case: beyond the cap the running task simply keeps the processor and the
		// others follow one after the other; the recorded schedule says exactly that
		s.probes["step_cap_reached_rest_ran_sequentially"]++
	}
}
