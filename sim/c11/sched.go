//go:build verif

package c11

import (
	"sync/atomic"
	"time"

	"github.com/formancehq/numscript/internal/verifsim/core"
)

// blockWatchdog is how long a parked task waits, without any scheduling step
// happening, before concluding that the running task is blocked on a lock a
// parked task holds. The pinned code takes no lock; a change under test may.
const blockWatchdog = 1500 * time.Millisecond

// Switch is one scheduling decision: at global step At (yields and task exits
// share one counter) hand the processor to task To, if it is runnable.
type Switch struct {
	At int `json:"at"`
	To int `json:"to"`
}

type task struct {
	id       int
	wake     chan struct{}
	done     bool
	started  bool
	body     func()
	lastSite string
	pending  bool // pushed senders not yet reconciled
	yields   int
}

// chooser decides, at a scheduling point, which runnable task continues.
type chooser interface {
	// next returns the id of the task to run (must be runnable), given the
	// step number, the current task (-1 at an exit) and the runnable ids.
	next(step int, cur int, runnable []int) int
}

// recorded replays an explicit switch list.
type recorded struct {
	at map[int]int
}

func newRecorded(sw []Switch) *recorded {
	r := &recorded{at: map[int]int{}}
	for _, s := range sw {
		r.at[s.At] = s.To
	}
	return r
}

func (r *recorded) next(step int, cur int, runnable []int) int {
	if to, ok := r.at[step]; ok {
		for _, id := range runnable {
			if id == to {
				return to
			}
		}
	}
	if cur >= 0 {
		return cur
	}
	return runnable[0]
}

// pct is a PCT-style chooser: fixed random priorities, the running task drops
// to the lowest priority at a few change points.
type pct struct {
	prio    []int
	changes map[int]bool
	low     int
}

func (p *pct) next(step int, cur int, runnable []int) int {
	if cur >= 0 && p.changes[step] {
		p.low--
		p.prio[cur] = p.low
	}
	best := runnable[0]
	for _, id := range runnable {
		if p.prio[id] > p.prio[best] {
			best = id
		}
	}
	return best
}

const maxSteps = 400000

type sched struct {
	tasks    []*task
	cur      *task
	ch       chooser
	progress atomic.Int64 // bumped at every scheduling step; read by parked tasks' watchdogs
	blocked  atomic.Bool  // the code under test blocked on a lock: tasks were released to run freely
	left     atomic.Int32 // tasks not yet finished (used once blocked)
	step     int
	switches int
	main     chan struct{}
	tr       *core.Trace
	rec      []Switch // the switches actually taken
	aborted  bool
	probes   map[string]int
	sites    map[string]int
}

func newSched(ch chooser, tr *core.Trace) *sched {
	return &sched{ch: ch, main: make(chan struct{}, 1), tr: tr, probes: map[string]int{}, sites: map[string]int{}}
}

func (s *sched) add(body func()) *task {
	t := &task{id: len(s.tasks), wake: make(chan struct{}, 1), body: body}
	s.tasks = append(s.tasks, t)
	return t
}

func (s *sched) runnable() []int {
	var out []int
	for _, t := range s.tasks {
		if !t.done {
			out = append(out, t.id)
		}
	}
	return out
}

// yield is installed as hook.YieldFn and as the SimStore yield: the running
// task offers the processor.
func (s *sched) yield(site string) {
	if s.blocked.Load() {
		return
	}
	t := s.cur
	if t == nil || s.aborted {
		return
	}
	s.step++
	s.progress.Add(1)
	t.yields++
	t.lastSite = site
	switch site {
	case "interpreter.programState.pushSender":
		t.pending = true
	case "interpreter.Reconcile", "interpreter.programState.runStatement":
		t.pending = false
	}
	if s.step > maxSteps {
		s.aborted = true
		return
	}
	nid := s.ch.next(s.step, t.id, s.runnable())
	if nid == t.id {
		return
	}
	next := s.tasks[nid]
	s.switches++
	s.rec = append(s.rec, Switch{At: s.step, To: nid})
	s.tr.Add("step %d: task %d parked at %s -> task %d", s.step, t.id, site, nid)
	s.sites[site]++
	if t.pending {
		s.probes["preempted_between_pushSender_and_Reconcile"]++
	}
	if next.started {
		s.probes["switch_between_two_mid_run_tasks"]++
	}
	s.cur = next
	next.started = true
	next.wake <- struct{}{}
	s.park(t)
}

// park waits to be scheduled again. If nothing at all happens for the watchdog
// period the running task must be blocked (the scheduler's yield points are
// dense: every statement): all parked tasks are released to run freely so that
// whoever holds the lock can finish, and the case is abandoned.
func (s *sched) park(t *task) {
	for {
		seen := s.progress.Load()
		select {
		case <-t.wake:
			return
		case <-time.After(blockWatchdog):
			if s.blocked.Load() {
				return
			}
			if s.progress.Load() == seen {
				s.blocked.Store(true)
				for _, o := range s.tasks {
					select {
					case o.wake <- struct{}{}:
					default:
					}
				}
				return
			}
		}
	}
}

func (s *sched) exit(t *task) {
	if s.blocked.Load() {
		if s.left.Add(-1) == 0 {
			s.main <- struct{}{}
		}
		return
	}
	s.left.Add(-1)
	t.done = true
	s.step++
	s.progress.Add(1)
	run := s.runnable()
	if len(run) == 0 {
		s.cur = nil
		s.main <- struct{}{}
		return
	}
	nid := s.ch.next(s.step, -1, run)
	s.rec = append(s.rec, Switch{At: s.step, To: nid})
	s.tr.Add("step %d: task %d finished -> task %d", s.step, t.id, nid)
	next := s.tasks[nid]
	s.cur = next
	next.started = true
	next.wake <- struct{}{}
}

// run executes all tasks to completion under the chooser. Exactly one task
// goroutine is runnable at any instant.
func (s *sched) run() {
	if len(s.tasks) == 0 {
		return
	}
	s.left.Store(int32(len(s.tasks)))
	for _, t := range s.tasks {
		t := t
		go func() {
			s.park(t)
			defer s.exit(t)
			t.body()
		}()
	}
	s.step++
	first := s.ch.next(s.step, -1, s.runnable())
	s.rec = append(s.rec, Switch{At: s.step, To: first})
	s.cur = s.tasks[first]
	s.cur.started = true
	s.cur.wake <- struct{}{}
	<-s.main
	if s.aborted {
		// a very long case: beyond the cap the running task simply keeps the processor and the
		// others follow one after the other; the recorded schedule says exactly that
		s.probes["step_cap_reached_rest_ran_sequentially"]++
	}
}
