//go:build verif

package c11

import (
	"context"
	"encoding/json"
	"fmt"
	"os"
	"sync"

	"github.com/formancehq/numscript/internal/verifsim/core"
	"github.com/formancehq/numscript/internal/verifsim/exec"
	"github.com/formancehq/numscript/internal/verifsim/store"
)

// Free-running race mode (supplementary monitoring): the same kind of case,
// but the tasks are real parallel goroutines under the race detector. The
// schedule is the Go runtime's, so a replay carries the inputs only and is
// marked "uncontrolled". A race report kills the process (GORACE
// halt_on_error); the driver then turns the case that was running, saved in
// race-current.<worker>.json, into the replay.

const raceReps = 40

func runRace(c Case) (*core.Violation, int) {
	text := c.Prog.Text()
	p := exec.Parse(text)
	if !p.InDomain {
		return nil, 0
	}
	base := make([]exec.Outcome, len(c.Tasks))
	for i, t := range c.Tasks {
		t.Faults = nil
		base[i] = c.solo(text, t, flagsMap(t))
	}
	mode := c.StoreMode
	if mode != store.ModeSuperset {
		mode = store.ModeExact
	}
	stores := map[int]*store.Frozen{}
	varsInst := map[int]map[string]string{}
	flagsInst := map[int]map[string]struct{}{}
	snap := map[int]string{}
	for _, t := range c.Tasks {
		if _, ok := stores[t.StoreGroup]; !ok {
			stores[t.StoreGroup] = store.NewFrozen(c.inputsFor(t), mode, c.Shared)
			snap[t.StoreGroup] = stores[t.StoreGroup].Snapshot()
		}
		if _, ok := varsInst[t.VarsGroup]; !ok {
			varsInst[t.VarsGroup] = copyVars(t.Vars)
		}
		if _, ok := flagsInst[t.FlagsGroup]; !ok {
			flagsInst[t.FlagsGroup] = flagsMap(t)
		}
	}
	outs := make([][]exec.Outcome, len(c.Tasks))
	var wg sync.WaitGroup
	start := make(chan struct{})
	for i, t := range c.Tasks {
		i, t := i, t
		st, vars, flags := stores[t.StoreGroup], varsInst[t.VarsGroup], flagsInst[t.FlagsGroup]
		wg.Add(1)
		go func() {
			defer wg.Done()
			<-start
			for r := 0; r < raceReps; r++ {
				outs[i] = append(outs[i], exec.Run(context.Background(), p.PR, vars, st, flags))
			}
		}()
	}
	close(start)
	wg.Wait()
	runs := len(c.Tasks) * raceReps
	for i := range c.Tasks {
		for r, o := range outs[i] {
			if o.Canon() != base[i].Canon() {
				return viol("race-mode", "parallel-result-differs", fmt.Sprintf("task %d parallel repetition %d returned %s ; alone it returns %s", i, r+1, core.Truncate(o.Canon(), 400), core.Truncate(base[i].Canon(), 400))), runs
			}
		}
	}
	for _, g := range sortedFrozen(stores) {
		if got := stores[g].Snapshot(); got != snap[g] {
			return viol("race-mode", "store-maps-modified", "store-owned maps changed under parallel runs: "+core.Truncate(snap[g], 300)+" -> "+core.Truncate(got, 300)), runs
		}
	}
	return nil, runs
}

func sortedFrozen(m map[int]*store.Frozen) []int {
	var ks []int
	for k := range m {
		ks = append(ks, k)
	}
	for i := range ks {
		for j := i + 1; j < len(ks); j++ {
			if ks[j] < ks[i] {
				ks[i], ks[j] = ks[j], ks[i]
			}
		}
	}
	return ks
}

func raceWorker(o core.WorkerOpts) *core.Report {
	l := core.NewLoop(o)
	l.Rep.Note = "race"
	distinct := &core.HashSet{}
	cur := fmt.Sprintf("%s/race-current.%d.json", o.OutDir, o.Worker)
	l.Run(func(i int64, caseSeed uint64) {
		r := core.NewRand(caseSeed)
		c, _ := genCase(r)
		if len(c.Tasks) < 2 {
			c.Tasks = append(c.Tasks, c.Tasks[0])
			c.Tasks[1].StoreGroup, c.Tasks[1].VarsGroup, c.Tasks[1].FlagsGroup = 0, 0, 0
		}
		c.Switches = nil
		if o.OutDir != "" {
			b, _ := json.Marshal(map[string]any{"case": c, "case_seed": caseSeed})
			os.WriteFile(cur, b, 0o644)
		}
		v, runs := runRace(c)
		l.Rep.Evaluations += int64(runs)
		l.Rep.Reach["race_mode_cases"]++
		if runs > 0 {
			l.Rep.Nontrivial++
			distinct.Add(core.HashJSON(c))
		}
		if v != nil && l.ShouldReport(*v) {
			l.AddReplay(*v, caseSeed, c, nil, []string{"free-running goroutines under the race detector; schedule not controlled"}, "", 0, "uncontrolled")
		}
	})
	if o.OutDir != "" {
		os.Remove(cur)
	}
	l.Rep.SaveHashes(o.OutDir, "race_mode_cases", distinct)
	return l.Rep
}

func raceReplay(c Case) (*core.Violation, *core.Trace, error) {
	tr := core.NewTrace(true)
	for i := 0; i < 50; i++ {
		if v, _ := runRace(c); v != nil {
			tr.Add("attempt %d: %s", i+1, v.Detail)
			return v, tr, nil
		}
	}
	tr.Add("50 attempts, no divergence and no race report")
	return nil, tr, nil
}
