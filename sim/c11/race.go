//go:build verif

package c11

import (
	"context"
	"encoding/json"
	"fmt"
	"math/rand/v2"
	"os"
	"sync"

	"github.com/formancehq/numscript/internal/verifsim/core"
	"github.com/formancehq/numscript/internal/verifsim/exec"
	"github.com/formancehq/numscript/internal/verifsim/gen"
	"github.com/formancehq/numscript/internal/verifsim/store"
)

// Free-running race mode (supplementary monitoring): the same kind of case,
// but the tasks are real parallel goroutines under the race detector. The
// schedule is the Go runtime's, so a replay carries the inputs only and is
// marked "uncontrolled". A race report kills the process (GORACE
// halt_on_error); the driver then turns the case that was running, saved in
// race-current.<worker>.json, into the replay.

const raceReps = 40

func runRace(c Case) (*core.Violation, int) {
	text := c.Prog.Text()
	p := exec.Parse(text)
	if c.RawText != "" {
		text = c.RawText
		p = exec.ParseLoose(text)
	}
	if !p.InDomain {
		return nil, 0
	}
	noiseText := ""
	var pn exec.Parsed
	if c.NoiseProg != nil {
		noiseText = c.NoiseProg.Text()
		pn = exec.Parse(noiseText)
		if !pn.InDomain {
			return nil, 0
		}
	}
	mode := c.StoreMode
	if mode != store.ModeSuperset {
		mode = store.ModeExact
	}
	stores := map[int]*store.Frozen{}
	varsInst := map[int]map[string]string{}
	flagsInst := map[int]map[string]struct{}{}
	snap := map[int]string{}
	for i := range c.Tasks {
		if c.Tasks[i].Ledger != nil {
			c.Tasks[i].StoreGroup = 1000 + i // own content: own store
		}
	}
	for _, t := range c.Tasks {
		if _, ok := stores[t.StoreGroup]; !ok {
			stores[t.StoreGroup] = store.NewFrozen(c.inputsFor(t), mode, c.Shared)
			stores[t.StoreGroup].Pause = true
			snap[t.StoreGroup] = stores[t.StoreGroup].Snapshot()
		}
		if _, ok := varsInst[t.VarsGroup]; !ok {
			varsInst[t.VarsGroup] = copyVars(t.Vars)
		}
		if _, ok := flagsInst[t.FlagsGroup]; !ok {
			flagsInst[t.FlagsGroup] = flagsMap(t)
		}
	}
	outs := make([][]exec.Outcome, len(c.Tasks))
	var wg sync.WaitGroup
	start := make(chan struct{})
	for i, t := range c.Tasks {
		i, t := i, t
		st, vars, flags := stores[t.StoreGroup], varsInst[t.VarsGroup], flagsInst[t.FlagsGroup]
		pr := p.PR
		if t.Noise {
			pr = pn.PR
		}
		wg.Add(1)
		go func() {
			defer wg.Done()
			<-start
			for r := 0; r < raceReps; r++ {
				o := exec.Run(context.Background(), pr, vars, st, flags)
				if c.Scribble {
					o.Scribble()
				}
				outs[i] = append(outs[i], o)
			}
		}()
	}
	close(start)
	wg.Wait()
	runs := len(c.Tasks) * raceReps
	// the solo baselines are computed after the parallel phase on purpose: anything the
	// interpreter initialises lazily must meet the parallel runs cold
	base := make([]exec.Outcome, len(c.Tasks))
	for i, t := range c.Tasks {
		t.Faults = nil
		if t.Noise {
			base[i] = c.solo(noiseText, t, flagsMap(t))
		} else {
			base[i] = c.solo(text, t, flagsMap(t))
		}
	}
	for i := range c.Tasks {
		for r, o := range outs[i] {
			if o.Canon() != base[i].Canon() {
				return viol("race-mode", "parallel-result-differs", fmt.Sprintf("task %d parallel repetition %d returned %s ; alone it returns %s", i, r+1, core.Truncate(o.Canon(), 400), core.Truncate(base[i].Canon(), 400))), runs
			}
		}
	}
	for _, g := range sortedFrozen(stores) {
		if got := stores[g].Snapshot(); got != snap[g] {
			return viol("race-mode", "store-maps-modified", "store-owned maps changed under parallel runs: "+core.Truncate(snap[g], 300)+" -> "+core.Truncate(got, 300)), runs
		}
	}
	return nil, runs
}

func sortedFrozen(m map[int]*store.Frozen) []int {
	var ks []int
	for k := range m {
		ks = append(ks, k)
	}
	for i := range ks {
		for j := i + 1; j < len(ks); j++ {
			if ks[j] < ks[i] {
				ks[i], ks[j] = ks[j], ks[i]
			}
		}
	}
	return ks
}

func raceWorker(o core.WorkerOpts) *core.Report {
	l := core.NewLoop(o)
	l.Rep.Note = "race"
	distinct := &core.HashSet{}
	cur := fmt.Sprintf("%s/race-current.%d.json", o.OutDir, o.Worker)
	l.Run(func(i int64, caseSeed uint64) {
		r := core.NewRand(caseSeed)
		c, _ := genCase(r)
		if i%2 == 0 {
			// portion / number / monetary variables in every task: parsing paths run in parallel from the first instant
			c = withParsedVariables(r, c)
		}
		if len(c.Tasks) < 2 {
			c.Tasks = append(c.Tasks, c.Tasks[0])
			c.Tasks[1].StoreGroup, c.Tasks[1].VarsGroup, c.Tasks[1].FlagsGroup = 0, 0, 0
		}
		c.Switches = nil
		if o.OutDir != "" {
			b, _ := json.Marshal(map[string]any{"case": c, "case_seed": caseSeed})
			os.WriteFile(cur, b, 0o644)
		}
		v, runs := runRace(c)
		l.Rep.Evaluations += int64(runs)
		l.Rep.Reach["race_mode_cases"]++
		if runs > 0 {
			l.Rep.Nontrivial++
			distinct.Add(core.HashJSON(c))
		}
		if v != nil && l.ShouldReport(*v) {
			l.AddReplay(*v, caseSeed, c, nil, []string{"free-running goroutines under the race detector; schedule not controlled"}, "", 0, "uncontrolled")
		}
	})
	if o.OutDir != "" {
		os.Remove(cur)
	}
	l.Rep.SaveHashes(o.OutDir, "race_mode_cases", distinct)
	return l.Rep
}

// withParsedVariables declares extra plain variables of the types whose
// values go through a parser (portion, number, monetary) and uses them.
func withParsedVariables(r *rand.Rand, c Case) Case {
	c.Prog = c.Prog.Clone()
	pv := fmt.Sprintf("%d/%d", 1+r.IntN(3), 4+r.IntN(4))
	c.Prog.Vars = append(c.Prog.Vars, gen.VarDecl{Type: "portion", Name: "zz_rp"}, gen.VarDecl{Type: "number", Name: "zz_rn"}, gen.VarDecl{Type: "monetary", Name: "zz_rm"})
	c.Prog.Stmts = append(c.Prog.Stmts, gen.Stmt{K: "send", Amt: gen.Var("zz_rm"),
		Src: &gen.Src{K: "allot", Items: []gen.SrcItem{{A: gen.Allot{K: "var", S: "zz_rp"}, From: gen.Src{K: "acc", E: gen.Acc("world")}}, {A: gen.Allot{K: "rem"}, From: gen.Src{K: "acc", E: gen.Acc("world")}}}},
		Dst: &gen.Dst{K: "acc", E: gen.Acc("a")}})
	rn, rm := fmt.Sprint(r.IntN(1000)), fmt.Sprintf("USD %d", 1+r.IntN(1000))
	for i := range c.Tasks {
		// same values for every task: tasks may share one map instance
		c.Tasks[i].Vars = copyVars(c.Tasks[i].Vars)
		c.Tasks[i].Vars["zz_rp"] = pv
		c.Tasks[i].Vars["zz_rn"] = rn
		c.Tasks[i].Vars["zz_rm"] = rm
	}
	return c
}

func raceReplay(c Case) (*core.Violation, *core.Trace, error) {
	tr := core.NewTrace(true)
	// few attempts per process: state the code under test initialises lazily is only cold
	// once per process, so the driver repeats the replay in fresh processes instead
	for i := 0; i < 3; i++ {
		if v, _ := runRace(c); v != nil {
			tr.Add("attempt %d: %s", i+1, v.Detail)
			return v, tr, nil
		}
	}
	tr.Add("3 attempts in this process, no divergence and no race report")
	return nil, tr, nil
}
