//go:build verif

// Package c11: execution is a pure, deterministic, re-entrant function of
// its inputs. The simulated system is K caller tasks running Run on one
// shared ParseResult; the simulator owns which task proceeds at every yield
// point (store calls, and in the instrumented build every function entry of
// the interpreter) and the iteration order of every string-keyed map.
package c11

import (
	"context"
	"encoding/json"
	"fmt"
	"math/rand/v2"
	"sort"
	"strings"
	"sync/atomic"
	"time"

	"github.com/formancehq/numscript/internal/interpreter"
	"github.com/formancehq/numscript/internal/verifsim/c12"
	"github.com/formancehq/numscript/internal/verifsim/core"
	"github.com/formancehq/numscript/internal/verifsim/exec"
	"github.com/formancehq/numscript/internal/verifsim/gen"
	"github.com/formancehq/numscript/internal/verifsim/hook"
	"github.com/formancehq/numscript/internal/verifsim/store"
)

type TaskSpec struct {
	Vars       map[string]string `json:"vars"`
	Flags      []string          `json:"flags"`
	NilFlags   bool              `json:"nil_flags,omitempty"`
	VarsGroup  int               `json:"vars_group"`  // tasks of one group pass the same map instance
	FlagsGroup int               `json:"flags_group"` // same for the feature-flag map
	StoreGroup int               `json:"store_group"` // same for the store instance
	Reps       int               `json:"reps"`
	Faults     []store.Fault     `json:"faults,omitempty"` // only with a private store
	Noise      bool              `json:"noise,omitempty"`  // this task runs the noise script (another ParseResult) instead
	// Ledger, when set, is this task's own store content (then its store is private): runs on
	// one parsed script against DIFFERENT ledgers must not see each other's balances
	Ledger map[string]map[string]string `json:"ledger,omitempty"`
	// Nested: this task's store (then private) runs the same parsed script itself, with the
	// task's own inputs on a store of its own, before answering each call of the outer run --
	// what a ledger does when resolving one account involves executing another script.
	// "Re-entrant" taken literally: the inner run returns the solo result, and so does the outer.
	Nested bool `json:"nested,omitempty"`
	// NestedNilFlags: the inner run of a Nested task is made without any flag map (nil), whatever
	// the outer run's flags are, and compared with a solo run made the same way
	NestedNilFlags bool `json:"nested_nil_flags,omitempty"`
	// PreCancel: this task's context is already cancelled when Run is called (the store, like
	// most in-memory stores, does not look at it). Whatever Run makes of a cancelled context it
	// must make of it every time.
	PreCancel bool `json:"pre_cancelled_context,omitempty"`
}

type Case struct {
	Prog      gen.Program `json:"program"`
	Ledger    gen.Inputs  `json:"ledger"` // balances + metadata (Vars/Flags unused)
	Tasks     []TaskSpec  `json:"tasks"`
	StoreMode string      `json:"store_mode"`
	Shared    bool        `json:"shared_aliasing"`
	PlanSeed  uint64      `json:"plan_seed"`
	Switches  []Switch    `json:"switches"`
	PermSeed  uint64      `json:"perm_seed"`
	UsesOD    bool        `json:"uses_overdraft_fn"`
	// NoiseProg, when set, is a second script (the main one plus a declaration the main one
	// lacks) that runs between the repetitions of sequential tasks and as a concurrent task of
	// its own: what one parsed script leaves behind must not leak into the runs of another.
	NoiseProg *gen.Program `json:"noise_program,omitempty"`
	Scribble  bool         `json:"scribble,omitempty"` // the caller writes into every result it receives
	// RawText, when set, replaces the printed program: an edited text whose parse reports
	// errors. Such a ParseResult is still something a caller can hold and run; whatever Run does
	// with it (an error, a panic) it must do again for the same inputs.
	RawText string `json:"raw_text,omitempty"`
	// RawNoise (with RawText): another ill-formed text, parsed between the runs. A ParseResult a
	// caller holds - its errors included - is a value: parsing something else must not change it.
	RawNoise string `json:"raw_noise,omitempty"`
	// Linger, when > 0: one more run of task 0, alone, against a store that ignores its context;
	// at its Linger-th call the context is cancelled while the call is in flight and the store
	// answers only later. Whatever Run then returns, it must not return before its store call
	// has: a run that has returned is over (nothing of it is still inside the caller's store).
	Linger int `json:"linger,omitempty"`
}

type Result struct {
	InDomain   bool
	Why        string
	Violation  *core.Violation
	Trace      *core.Trace
	Runs       int
	Steps      int
	Switches   int
	Recorded   []Switch
	Probes     map[string]int
	Sites      map[string]int
	AnyMoney   bool
	HarnessErr string
	InterKey   string
	Hung       bool // the tasks never finished: the process is not usable any further
	Blocked    bool // the code under test blocked on a lock while another task was parked: case abandoned
}

func viol(oracle, class, detail string) *core.Violation {
	return &core.Violation{Property: "C11", Oracle: oracle, Class: class, Predicate: class, Detail: detail}
}

func flagsMap(t TaskSpec) map[string]struct{} {
	if t.NilFlags {
		return nil
	}
	m := map[string]struct{}{}
	for _, f := range t.Flags {
		m[f] = struct{}{}
	}
	return m
}

func canonFlags(m map[string]struct{}) string {
	if m == nil {
		return "<nil>"
	}
	ks := make([]string, 0, len(m))
	for k := range m {
		ks = append(ks, k)
	}
	sort.Strings(ks)
	return strings.Join(ks, ",")
}

func canonVars(m map[string]string) string {
	var sb strings.Builder
	for _, k := range core.SortedKeys(m) {
		fmt.Fprintf(&sb, "%q=%q;", k, m[k])
	}
	return sb.String()
}

func copyVars(m map[string]string) map[string]string {
	out := map[string]string{}
	for k, v := range m {
		out[k] = v
	}
	return out
}

func (c Case) inputsFor(t TaskSpec) gen.Inputs {
	bal := c.Ledger.Balances
	if t.Ledger != nil {
		bal = t.Ledger
	}
	return gen.Inputs{Vars: t.Vars, Balances: bal, Meta: c.Ledger.Meta, Flags: t.Flags}
}

func (c Case) plan(t TaskSpec) store.Plan {
	return store.Plan{Mode: c.StoreMode, Shared: c.Shared, MetaMode: []string{"exact", "account", "all"}[c.PlanSeed%3], Seed: c.PlanSeed, Faults: t.Faults}
}

// solo runs one task's call alone: fresh parse, fresh copies, private store,
// no scheduler, sorted map order.
func (c Case) solo(text string, t TaskSpec, flags map[string]struct{}) exec.Outcome {
	p := exec.Parse(text)
	if c.RawText != "" && text == c.RawText {
		p = exec.ParseLoose(text)
	}
	pl := c.plan(t)
	pl.Shared = false
	st := store.New(c.inputsFor(t), pl)
	ctx, cancel := context.WithCancel(context.Background())
	defer cancel()
	st.Cancel = cancel
	if t.PreCancel && len(t.Faults) == 0 {
		cancel()
	}
	return exec.Run(ctx, p.PR, copyVars(t.Vars), st, flags)
}

// Execute is a pure function of the case and the code under test (given the
// same build: instrumented or plain).
func Execute(c Case, keepTrace bool, ch chooser) (res Result) {
	tr := core.NewTrace(keepTrace)
	res = Result{Trace: tr, Probes: map[string]int{}, Sites: map[string]int{}}
	text := c.Prog.Text()
	var p exec.Parsed
	if c.RawText != "" {
		text = c.RawText
		p = exec.ParseLoose(text)
	} else {
		p = exec.Parse(text)
	}
	tr.Add("script %s", text)
	if !p.InDomain {
		res.Why = p.Why
		return res
	}
	res.InDomain = true
	var pn exec.Parsed
	noiseText := ""
	if c.NoiseProg != nil {
		noiseText = c.NoiseProg.Text()
		pn = exec.Parse(noiseText)
		if !pn.InDomain {
			res.InDomain = false
			res.Why = "noise script: " + pn.Why
			return res
		}
		tr.Add("noise script %s", noiseText)
	}
	textOf := func(t TaskSpec) string {
		if t.Noise {
			return noiseText
		}
		return text
	}

	// ---- solo baselines (and the flag oracle F)
	base := make([]exec.Outcome, len(c.Tasks))
	for i, t := range c.Tasks {
		base[i] = c.solo(textOf(t), t, flagsMap(t))
		tr.Add("solo task %d: %s", i, base[i].Canon())
		if len(base[i].Postings) > 0 || base[i].ErrType == "MissingFundsErr" {
			res.AnyMoney = true
		}
	}
	// whether the script calls overdraft() is read off the program itself (a label set at
	// generation time would go stale when the minimiser drops declarations)
	c.UsesOD = false
	for _, v := range c.Prog.Vars {
		if v.Fn == "overdraft" {
			c.UsesOD = true
		}
	}
	if len(c.Tasks) > 0 && !c.Tasks[0].Noise {
		t0 := c.Tasks[0]
		with := map[string]struct{}{gen.FlagOverdraft: {}}
		unknown := map[string]struct{}{gen.FlagOverdraft: {}, "experimental-something-else": {}, "": {}}
		oWith := c.solo(text, t0, with)
		oUnk := c.solo(text, t0, unknown)
		oNone := c.solo(text, t0, map[string]struct{}{})
		oNil := c.solo(text, t0, nil)
		res.Runs += 4
		if oWith.Canon() != oUnk.Canon() {
			res.Violation = viol("flags", "unknown-flag-changes-result", "with {overdraft flag}: "+oWith.Canon()+" ; with unknown flags added: "+oUnk.Canon())
			return res
		}
		if oNone.Canon() != oNil.Canon() {
			res.Violation = viol("flags", "nil-vs-empty-flags-differ", "with {}: "+oNone.Canon()+" ; with nil: "+oNil.Canon())
			return res
		}
		if c.RawText != "" {
			// an edited text: whether it still calls overdraft() is not known from the AST
		} else if !c.UsesOD && oWith.Canon() != oNone.Canon() {
			res.Violation = viol("flags", "flag-changes-ungated-behaviour", "script does not call overdraft(); with the flag: "+oWith.Canon()+" ; without: "+oNone.Canon())
			return res
		}
		if c.RawText == "" && c.UsesOD && oNone.ErrType != "ExperimentalFeature" && oNone.ErrType != "MissingVariableErr" && oNone.Canon() == oWith.Canon() && oWith.Err == "" {
			res.Violation = viol("flags", "gated-feature-available-without-flag", "script calls overdraft(); without the flag it still succeeds: "+oNone.Canon())
			return res
		}
	}

	if c.Linger > 0 && len(c.Tasks) > 0 && !c.Tasks[0].Noise {
		t0 := c.Tasks[0]
		pl := c.plan(t0)
		pl.Shared, pl.Faults = false, nil
		ctx, cancel := context.WithCancel(context.Background())
		ls := &lingerStore{inner: store.New(c.inputsFor(t0), pl), at: c.Linger, cancel: cancel, release: make(chan struct{})}
		o := exec.Run(ctx, p.PR, copyVars(t0.Vars), ls, flagsMap(t0))
		inflight := ls.inflight.Load()
		close(ls.release)
		cancel()
		res.Runs++
		if ls.hit {
			res.Probes["context_cancelled_while_a_store_call_was_in_flight"]++
		}
		tr.Add("linger run (context cancelled during store call %d, store answers later): %s ; store calls in flight at return: %d", c.Linger, o.Canon(), inflight)
		if inflight > 0 {
			res.Violation = viol("purity", "run-returned-while-its-store-call-was-in-flight", fmt.Sprintf("the context was cancelled while store call %d was in flight (the store ignores contexts and answers a moment later); Run returned %s while that call was still running inside the caller's store", c.Linger, core.Truncate(o.Canon(), 300)))
			return res
		}
	}

	// ---- shared instances
	varsInst := map[int]map[string]string{}
	varsSnap := map[int]string{}
	flagsInst := map[int]map[string]struct{}{}
	flagsSnap := map[int]string{}
	stores := map[int]*store.SimStore{}
	cancels := []context.CancelFunc{}
	type slot struct {
		out    []exec.Outcome
		nested []exec.Outcome
	}
	slots := make([]slot, len(c.Tasks))
	s := newSched(ch, tr)
	perm := core.NewRand(c.PermSeed)
	for i, t := range c.Tasks {
		i, t := i, t
		if _, ok := varsInst[t.VarsGroup]; !ok {
			varsInst[t.VarsGroup] = copyVars(t.Vars)
			varsSnap[t.VarsGroup] = canonVars(t.Vars)
		}
		if _, ok := flagsInst[t.FlagsGroup]; !ok {
			flagsInst[t.FlagsGroup] = flagsMap(t)
			flagsSnap[t.FlagsGroup] = canonFlags(flagsInst[t.FlagsGroup])
		}
		var st *store.SimStore
		nested := t.Nested && len(t.Faults) == 0
		if len(t.Faults) > 0 || t.Ledger != nil || nested {
			st = store.New(c.inputsFor(t), c.plan(t)) // private
		} else if x, ok := stores[t.StoreGroup]; ok {
			st = x
		} else {
			st = store.New(c.inputsFor(t), c.plan(t))
			stores[t.StoreGroup] = st
		}
		st.Yield = s.yield
		ctx, cancel := context.WithCancel(context.Background())
		cancels = append(cancels, cancel)
		if len(t.Faults) > 0 {
			st.Cancel = cancel
		} else if t.PreCancel {
			cancel()
		}
		vars, flags := varsInst[t.VarsGroup], flagsInst[t.FlagsGroup]
		if len(t.Faults) > 0 {
			t.Reps = 1 // the fault plan counts the calls of one run on the private store
			c.Tasks[i].Reps = 1
		}
		if len(t.Faults) > 0 || t.Ledger != nil || nested {
			stores[-1-i] = st
		}
		pr := p.PR
		if t.Noise {
			pr = pn.PR
		}
		if nested {
			depth := 0
			st.Nested = func(sctx context.Context, site string) {
				if depth > 0 || len(slots[i].nested) >= 4 {
					return
				}
				depth++
				pl := c.plan(t)
				pl.Shared = false
				inner := store.New(c.inputsFor(t), pl)
				inner.Yield = s.yield
				tr.Add("task %d: its store, asked %s, runs the script itself before answering", i, site)
				// the inner run is started with the context the store was handed, as a store would
				nf := flagsMap(t)
				if t.NestedNilFlags {
					nf = nil
				}
				slots[i].nested = append(slots[i].nested, exec.Run(sctx, pr, copyVars(t.Vars), inner, nf))
				res.Probes["nested_runs_inside_a_store_call"]++
				depth--
			}
		}
		between := c.NoiseProg != nil && !t.Noise && len(t.Faults) == 0
		s.add(func() {
			for r := 0; r < t.Reps; r++ {
				o := exec.Run(ctx, pr, vars, st, flags)
				if c.Scribble {
					o.Scribble()
				}
				// what any caller may do between runs: read the parse result's accessors
				_ = pr.GetParsingErrors()
				_ = pr.GetSource()
				if c.RawNoise != "" {
					exec.ParseLoose(c.RawNoise)
				}
				slots[i].out = append(slots[i].out, o)
				if between {
					// history: another script, declaring what this one lacks, runs in between
					exec.Run(ctx, pn.PR, vars, st, flags)
				}
			}
		})
		res.Runs += t.Reps
	}
	astBefore := exec.ProgramDigest(p.PR)
	parseErrsBefore := fmt.Sprintf("%v | %q", p.PR.GetParsingErrors(), p.PR.GetSource())
	hook.YieldFn = s.yield
	hook.PermFn = func(keys []string) {
		perm.Shuffle(len(keys), func(a, b int) { keys[a], keys[b] = keys[b], keys[a] })
	}
	func() {
		defer func() {
			hook.YieldFn = nil
			hook.PermFn = nil
			if r := recover(); r != nil {
				res.HarnessErr = fmt.Sprint(r)
			}
		}()
		s.run()
	}()
	for _, cancel := range cancels {
		cancel()
	}
	if s.hung {
		res.Hung = true
		res.Steps, res.Switches, res.Recorded = s.step, s.switches, s.rec
		anyNested := false
		for _, t := range c.Tasks {
			anyNested = anyNested || t.Nested && len(t.Faults) == 0
		}
		if anyNested {
			res.Violation = viol("re-entrancy", "run-never-returns-with-a-re-entrant-store", "the runs did not finish within "+hangTimeout.String()+" although every parked task had been released: a store that runs the script itself while answering blocks the run for good")
		} else {
			res.HarnessErr = "tasks did not finish within " + hangTimeout.String()
		}
		return res
	}
	if s.blocked.Load() {
		res.Blocked = true
		if s.blockedOnStore != "" {
			res.Steps, res.Switches, res.Recorded = s.step, s.switches, s.rec
			tr.Add("blocked: %s", s.blockedOnStore)
			res.Violation = viol("non-interference", "run-blocked-while-another-run-waits-for-its-store",
				"under this schedule a run stopped making progress and resumed only once the runs waiting for an answer from their store were answered (the store seam only yields there, it holds nothing of the interpreter's): "+s.blockedOnStore)
		}
		return res
	}
	res.Steps, res.Switches, res.Recorded = s.step, s.switches, s.rec
	for k, v := range s.probes {
		res.Probes[k] += v
	}
	for k, v := range s.sites {
		res.Sites[k] += v
	}
	var ik strings.Builder
	for _, sw := range s.rec {
		fmt.Fprintf(&ik, "%d>%d,", sw.At, sw.To)
	}
	res.InterKey = ik.String()
	if res.HarnessErr != "" {
		return res
	}

	// ---- oracles over the recorded history
	for i, t := range c.Tasks {
		for r, o := range slots[i].out {
			tr.Add("task %d rep %d: %s", i, r, o.Canon())
			if o.Canon() != base[i].Canon() {
				class := "interleaved-result-differs"
				if len(c.Tasks) == 1 || s.switches == 0 {
					class = "repeated-result-differs"
				}
				if o.Panic != "" {
					class = "panic-under-interleaving"
				}
				res.Violation = viol("solo-equivalence", class, fmt.Sprintf("task %d (vars %s) repetition %d returned %s ; alone on a fresh parse with fresh inputs it returns %s", i, canonVars(t.Vars), r+1, core.Truncate(o.Canon(), 500), core.Truncate(base[i].Canon(), 500)))
				return res
			}
		}
		nbase := base[i]
		if t.NestedNilFlags && len(slots[i].nested) > 0 {
			nbase = c.solo(textOf(t), t, nil)
		}
		for r, o := range slots[i].nested {
			tr.Add("task %d nested run %d: %s", i, r, o.Canon())
			if o.Canon() != nbase.Canon() {
				res.Violation = viol("re-entrancy", "nested-run-differs-from-solo", fmt.Sprintf("task %d: its store ran the same parsed script with the same inputs while the outer run was waiting for the answer; that inner run returned %s ; alone it returns %s", i, core.Truncate(o.Canon(), 500), core.Truncate(nbase.Canon(), 500)))
				return res
			}
		}
		for r, o := range slots[i].out {
			if c.Scribble {
				break
			}
			if later, same := o.Recheck(); !same {
				res.Violation = viol("purity", "result-changed-after-return", fmt.Sprintf("the result task %d repetition %d returned read %s when it was returned and reads %s after the other runs finished", i, r+1, core.Truncate(o.Canon(), 400), core.Truncate(later, 400)))
				return res
			}
		}
		if len(slots[i].out) != t.Reps {
			res.HarnessErr = fmt.Sprintf("task %d ran %d of %d repetitions", i, len(slots[i].out), t.Reps)
			return res
		}
	}
	for _, g := range sortedInts(varsInst) {
		if got := canonVars(varsInst[g]); got != varsSnap[g] {
			res.Violation = viol("purity", "vars-map-modified", "the caller's variables map changed: "+varsSnap[g]+" -> "+got)
			return res
		}
	}
	for _, g := range sortedIntsF(flagsInst) {
		if got := canonFlags(flagsInst[g]); got != flagsSnap[g] {
			res.Violation = viol("purity", "flags-map-modified", "the caller's feature-flag map changed: "+flagsSnap[g]+" -> "+got)
			return res
		}
	}
	for _, g := range sortedIntsS(stores) {
		if stores[g] == nil {
			continue
		}
		if muts := stores[g].Mutations(); len(muts) > 0 {
			res.Violation = viol("purity", "store-maps-modified", core.Truncate(strings.Join(muts, " ; "), 900))
			return res
		}
	}
	if after := fmt.Sprintf("%v | %q", p.PR.GetParsingErrors(), p.PR.GetSource()); after != parseErrsBefore {
		res.Violation = viol("purity", "parse-result-accessors-changed", "GetParsingErrors() / GetSource() of the ParseResult the caller holds read "+core.Truncate(parseErrsBefore, 300)+" before the runs and "+core.Truncate(after, 300)+" after them")
		return res
	}
	if after := exec.ProgramDigest(p.PR); after != astBefore {
		res.Violation = viol("purity", "parsed-program-modified", "the shared parsed program changed during execution")
		return res
	}
	return res
}

func sortedInts(m map[int]map[string]string) []int {
	var ks []int
	for k := range m {
		ks = append(ks, k)
	}
	sort.Ints(ks)
	return ks
}
func sortedIntsF(m map[int]map[string]struct{}) []int {
	var ks []int
	for k := range m {
		ks = append(ks, k)
	}
	sort.Ints(ks)
	return ks
}
func sortedIntsS(m map[int]*store.SimStore) []int {
	var ks []int
	for k := range m {
		ks = append(ks, k)
	}
	sort.Ints(ks)
	return ks
}

var _ = interpreter.StaticStore{}

// ---- generation

func varyVars(r *rand.Rand, g *gen.G) map[string]string {
	out := copyVars(g.In.Vars)
	for _, v := range g.Prog.Vars {
		if v.Fn != "" || r.IntN(2) == 0 {
			continue
		}
		cur := out[v.Name]
		switch v.Type {
		case "account":
			out[v.Name] = g.Accts[r.IntN(len(g.Accts))]
		case "asset":
			if r.IntN(2) == 0 {
				out[v.Name] = gen.AssetPool[r.IntN(len(gen.AssetPool))]
			}
		case "number":
			out[v.Name] = fmt.Sprint(r.IntN(300))
		case "monetary":
			parts := strings.SplitN(cur, " ", 2)
			if len(parts) == 2 {
				if r.IntN(3) == 0 {
					parts[0] = gen.AssetPool[r.IntN(len(gen.AssetPool))] // another asset: other balances are needed
				}
				out[v.Name] = parts[0] + " " + fmt.Sprint(r.IntN(300))
			}
		case "string":
			out[v.Name] = cur + "!"
		}
	}
	return out
}

func genCase(r *rand.Rand) (Case, chooser) {
	prof := gen.DrawProfile(r)
	prof.PWrongAsset = 0
	if r.IntN(3) == 0 {
		prof.MaxStmts = 2 + r.IntN(5)
	}
	g := gen.Generate(r, prof)
	if r.IntN(15) == 0 {
		// account and asset values no literal can spell (several of them ill-formed at once):
		// whatever the interpreter does with them, it does the same thing every time
		pi := gen.OddNames(r, gen.PI{Prog: g.Prog, In: g.In})
		g.Prog, g.In = pi.Prog, pi.In
	}
	c := Case{Prog: g.Prog, Ledger: gen.Inputs{Balances: g.In.Balances, Meta: g.In.Meta, Vars: map[string]string{}}, PlanSeed: r.Uint64(), PermSeed: r.Uint64(), UsesOD: g.UsesOverdraftFn}
	c.StoreMode = []string{store.ModeExact, store.ModeSuperset, store.ModeStatic, store.ModeSparse, store.ModeRandSup}[r.IntN(5)]
	c.Shared = r.IntN(3) != 0 || c.StoreMode == store.ModeStatic
	k := []int{1, 2, 2, 3, 3, 4, 5, 6}[r.IntN(8)]
	shareVars, shareFlags, shareStore := r.IntN(2) == 0, r.IntN(2) == 0, r.IntN(3) != 0
	sameInputs := r.IntN(3) == 0
	for i := 0; i < k; i++ {
		t := TaskSpec{Vars: copyVars(g.In.Vars), Flags: append([]string(nil), g.In.Flags...), VarsGroup: i, FlagsGroup: i, StoreGroup: i, Reps: 1 + r.IntN(2)}
		if k == 1 {
			t.Reps = 2 + r.IntN(4)
		}
		if i > 0 && !sameInputs {
			t.Vars = varyVars(r, g)
		}
		if i > 0 && sameInputs && shareVars {
			t.VarsGroup = 0
		}
		if shareFlags {
			t.FlagsGroup = 0 // same flags for everyone (they are copies of the generator's)
		} else if i > 0 && r.IntN(3) == 0 {
			if g.UsesOverdraftFn && r.IntN(2) == 0 {
				t.Flags = nil
			} else {
				t.Flags = append(t.Flags, []string{"unrelated-flag", "Unrelated-Flag", " padded flag ", "EXPERIMENTAL-SOMETHING"}[r.IntN(4)])
			}
		}
		if len(t.Flags) == 0 && r.IntN(3) == 0 {
			t.NilFlags = true
		}
		if shareStore {
			t.StoreGroup = 0
		}
		if k > 1 && i > 0 && r.IntN(7) == 0 {
			t.Faults = []store.Fault{{Call: 1 + r.IntN(3), Kind: store.FaultKinds[r.IntN(3)], Msg: fmt.Sprintf("simfault-%d", i)}}
		}
		c.Tasks = append(c.Tasks, t)
	}
	// a share of cases uses a variable without declaring it (the run must fail the same way
	// whatever ran before); the complete script becomes the noise script
	if r.IntN(5) == 0 {
		used := c.Prog.UsedVars()
		var cand []int
		for i, v := range c.Prog.Vars {
			if v.Fn == "" && used[v.Name] {
				cand = append(cand, i)
			}
		}
		if len(cand) > 0 {
			full := c.Prog.Clone()
			c.NoiseProg = &full
			i := cand[r.IntN(len(cand))]
			c.Prog = c.Prog.Clone()
			c.Prog.Vars = append(c.Prog.Vars[:i], c.Prog.Vars[i+1:]...)
			if k > 1 {
				nt := c.Tasks[r.IntN(len(c.Tasks))]
				nt.Vars = copyVars(nt.Vars)
				nt.Noise, nt.Faults, nt.Reps = true, nil, 1+r.IntN(2)
				nt.VarsGroup, nt.FlagsGroup = 100, 100
				c.Tasks = append(c.Tasks, nt)
			}
		}
	}
	k = len(c.Tasks)
	// a share of cases gives some tasks their own ledger content (same accounts, other amounts)
	if k > 1 && r.IntN(4) == 0 {
		for i := 1; i < len(c.Tasks); i++ {
			if r.IntN(2) == 0 && len(c.Tasks[i].Faults) == 0 {
				own := map[string]map[string]string{}
				for _, a := range core.SortedKeys(g.In.Balances) {
					own[a] = map[string]string{}
					for _, as := range core.SortedKeys(g.In.Balances[a]) {
						own[a][as] = fmt.Sprint(r.IntN(500))
					}
				}
				c.Tasks[i].Ledger = own
			}
		}
	}
	if r.IntN(12) == 0 {
		i := r.IntN(len(c.Tasks))
		if len(c.Tasks[i].Faults) == 0 {
			c.Tasks[i].PreCancel = true
			if c.Tasks[i].Reps < 2 {
				c.Tasks[i].Reps = 2
			}
		}
	}
	// a share of cases has a store that runs the script itself (re-entrant use)
	if r.IntN(6) == 0 {
		i := r.IntN(len(c.Tasks))
		if len(c.Tasks[i].Faults) == 0 && !c.Tasks[i].Noise {
			c.Tasks[i].Nested = true
			c.Tasks[i].NestedNilFlags = r.IntN(2) == 0
		}
	}
	// a share of cases runs an ill-formed script (a labelled defect of the C12 engine): errors
	// must be as repeatable and as private to their run as results are
	if r.IntN(6) == 0 {
		pi := gen.PI{Prog: c.Prog, In: gen.Inputs{Vars: copyVars(g.In.Vars), Balances: c.Ledger.Balances, Meta: c.Ledger.Meta}}
		before := canonVars(pi.In.Vars)
		if _, ok := c12.ApplyDefect(r, &pi, false); ok && canonVars(pi.In.Vars) == before {
			c.Prog = pi.Prog
		}
	}
	// a share of cases runs an EDITED text (parse errors included)
	if r.IntN(18) == 0 {
		t := c.Prog.Text()
		for n := 1 + r.IntN(3); n > 0; n-- {
			t = gen.EditText(r, t)
		}
		c.RawText = t
		if r.IntN(2) == 0 {
			// and another broken text, parsed between the runs
			o := c.Prog.Text()
			for n := 1 + r.IntN(3); n > 0; n-- {
				o = gen.EditText(r, o)
			}
			if o != t {
				c.RawNoise = o
			}
		}
		c.NoiseProg = nil
		var keep []TaskSpec
		for _, ts := range c.Tasks {
			if !ts.Noise {
				keep = append(keep, ts)
			}
		}
		c.Tasks = keep
		k = len(c.Tasks)
	}
	// a share of cases pads values with whitespace (the caller's map must come back untouched,
	// whatever the interpreter makes of such values)
	if r.IntN(8) == 0 {
		for _, v := range g.Prog.Vars {
			if v.Fn == "" && r.IntN(2) == 0 {
				pad := []string{" %s", "%s ", "\t%s", "%s\n", " %s "}[r.IntN(5)]
				for i := range c.Tasks {
					if cur, ok := c.Tasks[i].Vars[v.Name]; ok && !strings.ContainsAny(cur, " \t\n") || v.Type == "string" {
						c.Tasks[i].Vars[v.Name] = fmt.Sprintf(pad, g.In.Vars[v.Name])
					}
				}
			}
		}
	}
	// the caller owns what Run returns: in a share of cases it writes into every result it gets
	// (later runs must not see that); those cases skip the re-reading of results at the end
	c.Scribble = r.IntN(4) == 0
	// a share of cases carries ill-formed variable values: which error is reported
	// must not depend on map iteration order or on the other tasks
	if r.IntN(7) == 0 {
		bad := 0
		for _, v := range g.Prog.Vars {
			if v.Fn == "" && (v.Type == "number" || v.Type == "monetary" || v.Type == "portion") && bad < 3 && r.IntN(2) == 0 {
				garbage := []string{"abc", "12x", "", "USD", "7/0"}[r.IntN(5)] + fmt.Sprint(bad)
				for i := range c.Tasks {
					c.Tasks[i].Vars[v.Name] = garbage // same for every task: tasks may share one map instance
				}
				bad++
			}
		}
	}
	if r.IntN(60) == 0 {
		c.Linger = 1 + r.IntN(3)
	}
	// schedule
	if k == 1 {
		return c, newRecorded(nil)
	}
	if r.IntN(3) == 0 {
		// PCT-style plan; the switches it takes are recorded into the case afterwards
		p := &pct{prio: r.Perm(k), changes: map[int]bool{}}
		d := 1 + r.IntN(3)
		for i := 0; i < d; i++ {
			p.changes[1+r.IntN(1500*k)] = true
		}
		return c, p
	}
	prob := []float64{0.02, 0.1, 0.5}[r.IntN(3)]
	at := 1
	c.Switches = append(c.Switches, Switch{At: 1, To: r.IntN(k)})
	for len(c.Switches) < 600 {
		gap := 1
		for r.Float64() > prob && gap < 2000 {
			gap++
		}
		at += gap
		if at > 30000 {
			break
		}
		c.Switches = append(c.Switches, Switch{At: at, To: r.IntN(k)})
	}
	return c, newRecorded(c.Switches)
}

func candidates(c Case) []Case {
	var out []Case
	clone := func() Case {
		b, _ := json.Marshal(c)
		var n Case
		json.Unmarshal(b, &n)
		return n
	}
	if c.NoiseProg != nil {
		n := clone()
		n.NoiseProg = nil
		var keep []TaskSpec
		for _, t := range n.Tasks {
			if !t.Noise {
				keep = append(keep, t)
			}
		}
		n.Tasks = keep
		if len(keep) > 0 {
			out = append(out, n)
		}
	}
	// fewer tasks
	for i := range c.Tasks {
		if len(c.Tasks) > 1 {
			n := clone()
			n.Tasks = append(n.Tasks[:i], n.Tasks[i+1:]...)
			out = append(out, n)
		}
	}
	for i := range c.Tasks {
		if c.Tasks[i].Reps > 1 {
			n := clone()
			n.Tasks[i].Reps = 1
			out = append(out, n)
		}
		if len(c.Tasks[i].Faults) > 0 {
			n := clone()
			n.Tasks[i].Faults = nil
			out = append(out, n)
		}
	}
	// fewer switches: drop halves, then singles
	if n := len(c.Switches); n > 0 {
		if n > 4 {
			a := clone()
			a.Switches = a.Switches[:n/2]
			out = append(out, a)
			b := clone()
			b.Switches = b.Switches[n/2:]
			out = append(out, b)
		}
		if n <= 40 {
			for i := 0; i < n; i++ {
				a := clone()
				a.Switches = append(a.Switches[:i], a.Switches[i+1:]...)
				out = append(out, a)
			}
		}
	}
	if c.StoreMode != store.ModeExact && c.StoreMode != store.ModeStatic {
		n := clone()
		n.StoreMode = store.ModeExact
		out = append(out, n)
	}
	// smaller program / ledger (variables live per task, so only the program and ledger shrink here)
	pi := gen.PI{Prog: c.Prog, In: gen.Inputs{Vars: map[string]string{}, Balances: c.Ledger.Balances, Meta: c.Ledger.Meta}}
	for _, cand := range pi.Candidates() {
		n := clone()
		n.Prog = cand.Prog
		n.Ledger.Balances = cand.In.Balances
		n.Ledger.Meta = cand.In.Meta
		out = append(out, n)
	}
	return out
}

func Worker(o core.WorkerOpts) *core.Report {
	if o.Mode == "race" {
		return raceWorker(o)
	}
	l := core.NewLoop(o)
	l.Rep.Note = o.Mode
	distinct := &core.HashSet{}
	inter := &core.HashSet{}
	noPreempt := false
	l.Run(func(i int64, caseSeed uint64) {
		r := core.NewRand(caseSeed)
		c, ch := genCase(r)
		if noPreempt {
			// the code under test takes locks: parking a task at a yield point can block the
			// others for good, so tasks run to completion one after the other from here on
			// (repetition, purity, history and flag oracles still apply; interleavings are
			// left to the free-running race workers)
			c.Switches = nil
			ch = newRecorded(nil)
		}
		l.Current(caseSeed, c)
		res := Execute(c, false, ch)
		if res.Hung {
			// goroutines of the code under test are blocked for good: nothing more can be decided here
			l.Stop = true
			if res.Violation != nil && l.ShouldReport(*res.Violation) {
				l.AddReplay(*res.Violation, caseSeed, c, nil, res.Trace.Events, res.Trace.Hash(), 0, "controlled")
			} else if res.HarnessErr != "" {
				l.Rep.HarnessErr = res.HarnessErr
			}
			return
		}
		if res.Blocked {
			if res.Violation != nil && l.ShouldReport(*res.Violation) {
				v := *res.Violation
				// every evaluation that blocks costs seconds of real time: a short minimisation only
				min, used := core.Minimise(c, candidates, func(n Case) bool {
					rr := Execute(n, false, newRecorded(n.Switches))
					return rr.Violation != nil && rr.Violation.Signature() == v.Signature()
				}, 3)
				fr := Execute(min, true, newRecorded(min.Switches))
				if fr.Violation == nil {
					min = c
					fr = Execute(c, true, newRecorded(c.Switches))
					if fr.Violation == nil {
						fr.Violation = &v
					}
				}
				l.Rep.Reach["run_blocked_while_others_wait_in_store"]++
				l.AddReplay(*fr.Violation, caseSeed, min, nil, fr.Trace.Events, fr.Trace.Hash(), used, "controlled")
			}
			noPreempt = true
			l.Rep.Reach["cases_abandoned_code_under_test_blocked_on_a_lock"]++
			l.Rep.Note = o.Mode + "; code under test blocks on locks: sequential fallback after case " + fmt.Sprint(i)
			return
		}
		if _, isPCT := ch.(*pct); isPCT && res.InDomain {
			// make the case self-contained: keep the switches the plan actually took
			c.Switches = res.Recorded
			l.Rep.Reach["pct_plans"]++
		}
		l.NoteTrace(res.Trace.Hash())
		if res.HarnessErr != "" {
			l.Rep.HarnessErr = res.HarnessErr
			return
		}
		if !res.InDomain {
			l.Rep.Skipped++
			return
		}
		l.Rep.Evaluations += int64(res.Runs)
		l.Rep.Steps["yields_and_exits"] += int64(res.Steps)
		l.Rep.Steps["context_switches"] += int64(res.Switches)
		for k, v := range res.Probes {
			l.Rep.Reach[k] += int64(v)
		}
		for k, v := range res.Sites {
			l.Rep.Reach["preempted_at/"+k] += int64(v)
		}
		l.Rep.Reach[fmt.Sprintf("tasks=%d", len(c.Tasks))]++
		if c.Shared {
			l.Rep.Reach["store_hands_out_its_own_maps"]++
		}
		nfault := 0
		for _, t := range c.Tasks {
			if len(t.Faults) > 0 {
				nfault++
			}
		}
		if nfault > 0 {
			l.Rep.Reach["cases_with_faulted_task_beside_healthy_ones"]++
			l.Rep.Faults["store_fault_in_one_task"] += int64(nfault)
		}
		reps := 0
		for _, t := range c.Tasks {
			reps += t.Reps
		}
		nontrivial := (res.Switches >= 2 || reps >= 2) && res.AnyMoney
		if nontrivial {
			l.Rep.Nontrivial++
			distinct.Add(core.HashJSON(c))
		}
		if res.Switches > 0 {
			inter.Add(core.Hash64([]byte(res.InterKey)))
		}
		if i%5000 == 11 || len(l.Rep.Samples) == 0 && nontrivial && len(c.Tasks) > 1 {
			sc := c
			if len(sc.Switches) > 12 {
				sc.Switches = sc.Switches[:12]
			}
			l.Sample(map[string]any{"script": c.Prog.Text(), "case_with_first_12_switches": sc, "steps": res.Steps, "context_switches": res.Switches})
		}
		if res.Violation != nil {
			v := *res.Violation
			if !l.ShouldReport(v) {
				return
			}
			min, used := core.Minimise(c, candidates, func(n Case) bool {
				rr := Execute(n, false, newRecorded(n.Switches))
				return rr.InDomain && rr.HarnessErr == "" && rr.Violation != nil && rr.Violation.Signature() == v.Signature()
			}, 1500)
			fr := Execute(min, true, newRecorded(min.Switches))
			if fr.Violation == nil {
				// did not repeat on the minimised case: keep the original case and the verdict first seen
				min = c
				fr = Execute(c, true, newRecorded(c.Switches))
				if fr.Violation == nil {
					fr.Violation = &v
				}
			}
			l.AddReplay(*fr.Violation, caseSeed, min, nil, fr.Trace.Events, fr.Trace.Hash(), used, "controlled")
		}
	})
	l.Rep.SaveHashes(o.OutDir, "nontrivial_cases", distinct)
	l.Rep.SaveHashes(o.OutDir, "interleavings", inter)
	return l.Rep
}

func Replay(raw json.RawMessage, o core.WorkerOpts) (*core.Violation, *core.Trace, error) {
	var c Case
	if err := json.Unmarshal(raw, &c); err != nil {
		return nil, nil, err
	}
	if o.Mode == "race" {
		return raceReplay(c)
	}
	res := Execute(c, true, newRecorded(c.Switches))
	if res.HarnessErr != "" {
		return nil, nil, fmt.Errorf("%s", res.HarnessErr)
	}
	return res.Violation, res.Trace, nil
}

// lingerStore ignores its context. At call number `at` it has the harness cancel the context,
// then keeps the caller waiting for a moment (or until the harness has seen Run return,
// whichever comes first) before it answers.
type lingerStore struct {
	inner    *store.SimStore
	at, n    int
	hit      bool
	cancel   context.CancelFunc
	inflight atomic.Int32
	release  chan struct{}
}

func (l *lingerStore) enter() bool {
	l.n++
	if l.n != l.at {
		return false
	}
	l.hit = true
	l.inflight.Add(1)
	l.cancel()
	select {
	case <-l.release:
	case <-time.After(40 * time.Millisecond):
	}
	return true
}

func (l *lingerStore) GetBalances(ctx context.Context, q interpreter.BalanceQuery) (interpreter.Balances, error) {
	hit := l.enter()
	out, err := l.inner.GetBalances(context.Background(), q)
	if hit {
		l.inflight.Add(-1)
	}
	return out, err
}

func (l *lingerStore) GetAccountsMetadata(ctx context.Context, q interpreter.MetadataQuery) (interpreter.AccountsMetadata, error) {
	hit := l.enter()
	out, err := l.inner.GetAccountsMetadata(context.Background(), q)
	if hit {
		l.inflight.Add(-1)
	}
	return out, err
}
