import json,sys
claimed = sys.argv[1:]
NA = {
 "C01":"pure function of (script, balances, variables): a bound on running balances of one run; no schedule, clock, fault, crash point or history in the statement, and the anchored code (trySendingUpTo, getPostings) performs no I/O and keeps no state - deciding it needs a generator plus a replay oracle (property-based testing), not a simulator",
 "C02":"pure predicate on the postings of one run; no nondeterminism or fault for a simulator to own",
 "C03":"pure arithmetic over the source tree of one statement; its 'fails with no postings' half is exercised under C12",
 "C04":"needs a reference draw function over sources; the code has no nondeterminism, I/O or interleaving",
 "C05":"same as C04 for the destination tree",
 "C06":"arithmetic identity of makeAllotment; small-scope enumeration or proof is the natural tool, not simulation",
 "C07":"Reconcile is a pure function of two integer lists",
 "C08":"pure function of the statement sequence and balances",
 "C09":"metamorphic equation between two executions of a pure function; nothing is durable, so a split point is not a crash point",
 "C13":"numeral parsing and printing; the store merely carries a string from one run to the next",
 "C14":"parser totality is a property of a pure function of a string; there is no seam, schedule or fault",
 "C15":"same: pure function of the input text",
 "C16":"checker is a pure function of the AST",
 "C17":"relates two pure functions (checker, interpreter) on the same input",
 "C18":"crash-freedom and determinism of pure functions of (text, position); C19 covers the texts its histories visit, but the property as a whole has no schedule, fault or history to simulate",
}
PENDING = {
 "C11":"claimed by DESIGN.md; the engine is being built - not registered until it runs clean",
 "C12":"claimed by DESIGN.md; the engine is being built - not registered until it runs clean",
 "C19":"claimed by DESIGN.md; the engine is being built - not registered until it runs clean",
 "C20":"claimed by DESIGN.md; the engine is being built - not registered until it runs clean",
}
CHECKS = {
 "C10": dict(level=("exploration","Seeded search: hundreds of thousands of generated scripts per run, each executed against six legal store behaviours (exact, sparse, superset, random superset, union, the repository's StaticStore) chosen call by call from the seed; the recorded store conversation and the canonical outcome are compared. A clean batch is evidence over the sampled scripts, not proof.","5 (C10)"),
   note="Trusted: the harness's notion of a legal store answer (DESIGN 2.4); the script generator; Go toolchain. Scripts on which Parse panics or reports errors are outside the domain.",
   technique="deterministic simulation of the Store seam: seeded per-call store behaviours, differential oracle over the recorded conversation, minimised replay"),
 "C11": dict(level=("exploration","Seeded search over interleavings of up to 6 concurrent Run calls on one parsed script under a cooperative scheduler that owns every yield point (function entries of the interpreter inserted into a scratch copy, store calls) and every map iteration order; purity by deep snapshots of caller- and store-owned maps; plus free-running workers under the race detector as supplementary monitoring.","5 (C11)"),
   note="Interleavings are explored at function-entry granularity; the race mode's schedule is the Go runtime's (uncontrolled) and never clears anything.",
   technique="deterministic simulation: cooperative seeded scheduler (random + PCT) over instrumented yield points, map-order permutation seam, snapshot oracles; race detector as supplement"),
 "C12": dict(level=("fault_enumeration","For every sampled script the fault space of the Store seam is enumerated completely: a failure of each kind (error, cancelled context, deadline) at every store call index, then seeded retry sequences; hostile inputs are generated as labelled defects with the error category they must produce.","5 (C12)"),
   note="Scripts are sampled, the per-script fault space is exhaustive. Error categories are read from the dynamic type of the error.",
   technique="deterministic simulation with fault injection on the Store seam: exhaustive (call index x fault kind) enumeration per script, retry histories, labelled hostile inputs"),
 "C19": dict(level=("exploration","Seeded search over LSP request histories on several URIs delivered through a simulated pipe with seeded fragmentation, against the real lsp.State/Handle/MessageBuffer; every answer is compared with a fresh server that only saw the latest text; navigation is checked at every cursor position of generated scripts; crash and restart of the server with state loss; a share of histories run against the real binary over pipes with SIGKILL.","5 (C19)"),
   note="The fresh-server reference uses the same analysis code; what is decided is which text an answer was computed from, plus the absolute navigation oracle.",
   technique="deterministic simulation of client, byte-stream transport and server process: seeded histories, fragmentation, crash/restart; differential fresh-server oracle and absolute navigation oracle"),
 "C20": dict(level=("exploration","Configuration exploration: the real binary built from the working tree is run in a simulated process environment (argv, files, stdin chunking) and compared with the library as executable reference model. There is no schedule or clock in this property; it is claimed at a modest level.","5 (C20)"),
   note="Observes exit status, stdout and stderr only; pretty output is not compared.",
   technique="simulated process environment (input channel, stdin chunking, files) around the real binary; library as reference model"),
}
m = {
 "version":1,
 "setup_cmd":"bin/setup",
 "hooks":{"guard":"verif","enable":"no hook lives in /repo: bin/check copies /repo's working tree to a scratch dir, adds the harness (build tag verif) under internal/verifsim and, for C11, instruments the copy (yield points, map-order seam) before building with -tags verif",
          "baseline_off_cmd":"cd /repo && GOFLAGS=-mod=mod GOPROXY=off GOSUMDB=off go test -vet=off -count=1 ./...","source_commits":[],"add_only":True},
 "engines":[{"name":"sim","path":"sim/cmd/sim","serves_properties":claimed,"kind_free_text":"Go worker binary built inside a scratch copy of the repository; one engine package per property under sim/"}],
 "checks":[], "not_applicable":[],
 "notes":"Technique family: deterministic simulation with fault injection. See DESIGN.md. Exit codes: 0 held, 1 VIOLATION, 2 harness/build trouble.",
}
for pid in claimed:
    c=CHECKS[pid]
    m["checks"].append({"property_id":pid,"quick_cmd":"bin/check %s --tier quick"%pid,"thorough_cmd":"bin/check %s --tier thorough"%pid,
      "evidence_file":"evidence/%s.json"%pid,"replay_cmd_template":"bin/check %s --replay {path}"%pid,"engine":"sim",
      "level_claimed":{"category":c["level"][0],"text":c["level"][1],"design_ref":c["level"][2]},"level_note":c["note"],"technique":c["technique"]})
for pid in sorted(list(NA)+[p for p in PENDING if p not in claimed]):
    m["not_applicable"].append({"property_id":pid,"reason":NA.get(pid) or PENDING[pid]})
json.dump(m,open("/verif/MANIFEST.json","w"),indent=1); open("/verif/MANIFEST.json","a").write("\n")
