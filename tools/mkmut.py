#!/usr/bin/env python3
"""mkmut.py NAME PROP EXPECT FILE <<< python-dict of replacements; writes /verif/mutants/NAME.patch from /tmp/mw"""
import sys, subprocess, json, os
name, prop, expect, desc = sys.argv[1], sys.argv[2], sys.argv[3], sys.argv[4]
edits = json.load(sys.stdin)  # list of [file, old, new]
os.chdir('/tmp/mw')
subprocess.check_call(['git','checkout','-q','--','.'])
for f, old, new in edits:
    s = open(f).read()
    if old not in s:
        print('OLD NOT FOUND in', f, ':', old[:80]); sys.exit(1)
    s = s.replace(old, new, 1)
    open(f,'w').write(s)
env = dict(os.environ, GOFLAGS='-mod=mod', GOPROXY='off', GOSUMDB='off', GOTOOLCHAIN='local')
r = subprocess.run(['go','build','./...'], env=env, capture_output=True, text=True)
if r.returncode != 0:
    print('BUILD FAILED', r.stderr[-1500:]); subprocess.call(['git','checkout','-q','--','.']); sys.exit(1)
r = subprocess.run(['go','test','-count=1','./...'], env=env, capture_output=True, text=True)
tests = 'pass' if r.returncode == 0 else 'FAIL'
if tests == 'FAIL':
    print('TESTS FAIL (mutant is caught by the suite):', r.stdout[-800:])
diff = subprocess.check_output(['git','diff']).decode()
hdr = '# property: %s\n# expect: %s\n# tests: %s\n# what: %s\n' % (prop, expect, tests, desc)
open('/verif/mutants/%s.patch' % name, 'w').write(hdr + diff)
subprocess.check_call(['git','checkout','-q','--','.'])
print('wrote', name, 'tests', tests, 'lines', len(diff.splitlines()))
