#!/usr/bin/env python3
"""pack_seeded.py <id> <PROP>[,<PROP>..] [--keep-worktree]

Takes an independently written property-breaking change from the scratch
worktree /tmp/wt/<id> (uncommitted modifications + new demo test files +
SEEDED_NOTES.md), confirms on a fresh scratch copy of /repo that it (a) builds,
(b) passes the existing test suite twice, (c) makes its demonstration fail and
(d) the demonstration passes without it; then runs the registered quick
check(s) of the property against the patched tree, replays the first
violation, and stores everything under /verif/seeded/<id>/. The scratch
worktree is removed afterwards.
"""
import json
import os
import shutil
import subprocess
import sys
import tempfile

VERIF = os.path.dirname(os.path.dirname(os.path.abspath(__file__)))
ENV = dict(os.environ, GOFLAGS="-mod=mod", GOPROXY="off", GOSUMDB="off", GOTOOLCHAIN="local")


def sh(cmd, cwd=None, env=None, check=False):
    p = subprocess.run(cmd, cwd=cwd, env=env or ENV, stdout=subprocess.PIPE, stderr=subprocess.STDOUT)
    if check and p.returncode != 0:
        raise SystemExit("FAILED: %s\n%s" % (" ".join(cmd), p.stdout.decode()[-3000:]))
    return p.returncode, p.stdout.decode(errors="replace")


def main():
    sid, props = sys.argv[1], sys.argv[2].split(",")
    keep = "--keep-worktree" in sys.argv
    W = "/tmp/wt/" + sid
    out = os.path.join(VERIF, "seeded", sid)
    os.makedirs(out, exist_ok=True)
    _, patch = sh(["git", "diff"], cwd=W)
    if not patch.strip():
        raise SystemExit("no tracked modification in " + W)
    _, new = sh(["git", "ls-files", "--others", "--exclude-standard"], cwd=W)
    newfiles = [f for f in new.splitlines() if f.strip()]
    demo = [f for f in newfiles if f.endswith(".go")]
    if not demo:
        raise SystemExit("no demonstration test file in " + W)
    open(os.path.join(out, "patch.diff"), "w").write(patch)
    for f in newfiles:
        dst = os.path.join(out, "demo", f)
        os.makedirs(os.path.dirname(dst), exist_ok=True)
        shutil.copy(os.path.join(W, f), dst)

    T = tempfile.mkdtemp(prefix="verif-seed-")
    meta = {"id": sid, "breaks": props, "ran": []}
    try:
        tree = os.path.join(T, "tree")
        sh(["rsync", "-a", "--exclude", ".git", "/repo/", tree + "/"], check=True)
        rc, o = sh(["patch", "-p1", "-s", "-i", os.path.join(out, "patch.diff")], cwd=tree)
        meta["applies_to_repo_head"] = rc == 0
        if rc != 0:
            raise SystemExit("patch does not apply to /repo HEAD:\n" + o)
        sh(["go", "build", "./..."], cwd=tree, check=True)
        t1, o1 = sh(["go", "test", "-count=1", "./..."], cwd=tree)
        t2, o2 = sh(["go", "test", "-count=1", "./..."], cwd=tree)
        meta["existing_tests_with_change"] = "pass" if (t1 == 0 and t2 == 0) else "FAIL"
        meta["ran"].append("go build ./... && go test -count=1 ./... (twice) on /repo HEAD + patch: %s" % meta["existing_tests_with_change"])
        if t1 or t2:
            open(os.path.join(out, "existing_tests_failure.txt"), "w").write((o1 if t1 else o2)[-6000:])
        # demonstration: with the change it must fail, without it must pass
        pkgs = sorted({"./" + (os.path.dirname(f) or ".") for f in demo})
        for f in demo:
            dst = os.path.join(tree, f)
            os.makedirs(os.path.dirname(dst), exist_ok=True)
            shutil.copy(os.path.join(W, f), dst)
        d1, do1 = sh(["go", "test", "-count=1"] + pkgs, cwd=tree)
        sh(["patch", "-p1", "-R", "-s", "-i", os.path.join(out, "patch.diff")], cwd=tree, check=True)
        d0, do0 = sh(["go", "test", "-count=1"] + pkgs, cwd=tree)
        meta["demo_with_change"] = "fails" if d1 != 0 else "PASSES"
        meta["demo_without_change"] = "passes" if d0 == 0 else "FAILS"
        meta["ran"].append("go test -count=1 %s with the demo files: with change -> %s, without -> %s" % (" ".join(pkgs), meta["demo_with_change"], meta["demo_without_change"]))
        open(os.path.join(out, "demo_output_with_change.txt"), "w").write(do1[-5000:])
        if d0 != 0:
            open(os.path.join(out, "demo_output_without_change.txt"), "w").write(do0[-5000:])
        # checks against the patched tree (demo files removed again: the checks see source changes only)
        for f in demo:
            os.remove(os.path.join(tree, f))
        sh(["patch", "-p1", "-s", "-i", os.path.join(out, "patch.diff")], cwd=tree, check=True)
        meta["checks"] = {}
        for prop in props:
            env = dict(os.environ, VERIF_REPO=tree)
            env.pop("VERIF_BUDGET_S", None)
            c = subprocess.run([os.path.join(VERIF, "bin", "check"), prop, "--tier", "quick", "--no-evidence"], env=env, stdout=subprocess.PIPE, stderr=subprocess.PIPE)
            text = c.stdout.decode(errors="replace")
            sigs = sorted({l.strip().split(": ")[0] for l in text.splitlines() if l.startswith("  ") and "/" in l.split(": ")[0] and len(l.split(": ")[0]) < 90})
            replays = [l.split("replay=")[1].strip() for l in text.splitlines() if l.startswith("VIOLATION")]
            r = {"quick_exit": c.returncode, "violation_signatures": sigs, "summary": text.splitlines()[0] if text else ""}
            if replays:
                # every reported violation is replayed on both trees: it must fail on the changed tree and
                # PASS on the unchanged one (a replay that fails on the unchanged tree is a false alarm of
                # the machinery, not a detection)
                good, false_alarms = [], []
                for rf in replays:
                    rp = subprocess.run([os.path.join(VERIF, "bin", "check"), prop, "--replay", rf], env=env, stdout=subprocess.PIPE, stderr=subprocess.PIPE)
                    rp0 = subprocess.run([os.path.join(VERIF, "bin", "check"), prop, "--replay", rf], env=dict(os.environ), stdout=subprocess.PIPE, stderr=subprocess.PIPE)
                    if rp0.returncode != 0:
                        false_alarms.append(os.path.basename(rf))
                        shutil.copy(rf, "/tmp/false-alarm-" + os.path.basename(rf))
                        print("FALSE-ALARM? replay %s fails on the UNCHANGED tree (exit %d); kept as /tmp/false-alarm-%s" % (rf, rp0.returncode, os.path.basename(rf)))
                    elif rp.returncode == 1:
                        good.append(rf)
                r["replays"] = len(replays)
                r["replays_reproducing_on_changed_tree_and_passing_on_unchanged"] = len(good)
                r["replays_failing_on_unchanged_tree"] = false_alarms
                first = good[0] if good else replays[0]
                r["replay_on_changed_tree_exit"] = 1 if good else 0
                r["replay_on_unchanged_tree_exit"] = 0 if good else (1 if false_alarms else 0)
                shutil.copy(first, os.path.join(out, "replay-%s.json" % prop))
                for x in replays:
                    if os.path.exists(x):
                        os.remove(x)
                if not good:
                    r["quick_exit_counts_as_detection"] = False
            meta["checks"][prop] = r
            meta["ran"].append("VERIF_REPO=<HEAD+patch> bin/check %s --tier quick -> exit %d %s" % (prop, c.returncode, ",".join(sigs)))
        meta["detected"] = any(v["quick_exit"] == 1 and v.get("quick_exit_counts_as_detection", True) for v in meta["checks"].values())
    finally:
        shutil.rmtree(T, ignore_errors=True)
    notes = os.path.join(W, "SEEDED_NOTES.md")
    meta["needs_to_manifest"] = "see demo/SEEDED_NOTES.md" if os.path.exists(notes) else ""
    json.dump(meta, open(os.path.join(out, "meta.json"), "w"), indent=1)
    print(json.dumps(meta, indent=1))
    if not keep:
        subprocess.run(["git", "-C", "/repo", "worktree", "remove", "--force", W])


if __name__ == "__main__":
    main()
