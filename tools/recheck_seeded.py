#!/usr/bin/env python3
"""recheck_seeded.py <id>... : re-runs the registered quick checks against /repo HEAD + seeded/<id>/patch.diff
and appends the outcome to meta.json under "rechecks" (history of how detection evolved)."""
import json, os, shutil, subprocess, sys, tempfile, time
V = os.path.dirname(os.path.dirname(os.path.abspath(__file__)))
for sid in sys.argv[1:]:
    d = os.path.join(V, "seeded", sid)
    meta = json.load(open(os.path.join(d, "meta.json")))
    T = tempfile.mkdtemp(prefix="verif-seed-")
    try:
        tree = os.path.join(T, "tree")
        subprocess.check_call(["rsync", "-a", "--exclude", ".git", "/repo/", tree + "/"])
        subprocess.check_call(["patch", "-p1", "-s", "-i", os.path.join(d, "patch.diff")], cwd=tree)
        for prop in meta["breaks"]:
            env = dict(os.environ, VERIF_REPO=tree)
            env.pop("VERIF_BUDGET_S", None)
            c = subprocess.run([os.path.join(V, "bin", "check"), prop, "--tier", "quick", "--no-evidence"], env=env, stdout=subprocess.PIPE, stderr=subprocess.PIPE)
            text = c.stdout.decode(errors="replace")
            sigs = sorted({l.strip().split(": ")[0] for l in text.splitlines() if l.startswith("  ") and "/" in l.split(": ")[0] and len(l.split(": ")[0]) < 90})
            replays = [l.split("replay=")[1].strip() for l in text.splitlines() if l.startswith("VIOLATION")]
            r = {"quick_exit": c.returncode, "violation_signatures": sigs, "summary": text.splitlines()[0] if text else ""}
            if replays:
                rp = subprocess.run([os.path.join(V, "bin", "check"), prop, "--replay", replays[0]], env=env, stdout=subprocess.PIPE, stderr=subprocess.PIPE)
                r["replay_on_changed_tree_exit"] = rp.returncode
                rp0 = subprocess.run([os.path.join(V, "bin", "check"), prop, "--replay", replays[0]], env=dict(os.environ), stdout=subprocess.PIPE, stderr=subprocess.PIPE)
                r["replay_on_unchanged_tree_exit"] = rp0.returncode
                shutil.copy(replays[0], os.path.join(d, "replay-%s.json" % prop))
                for x in replays:
                    if os.path.exists(x):
                        os.remove(x)
            commit = subprocess.check_output(["git", "-C", V, "rev-parse", "--short", "HEAD"]).decode().strip()
            meta.setdefault("rechecks", []).append({"verif_commit_before_this_run": commit, "property": prop, "previous": meta["checks"].get(prop), "now": r})
            meta["checks"][prop] = r
            meta["ran"].append("recheck: VERIF_REPO=<HEAD+patch> bin/check %s --tier quick -> exit %d %s" % (prop, c.returncode, ",".join(sigs)))
        meta["detected"] = any(v["quick_exit"] == 1 for v in meta["checks"].values())
    finally:
        shutil.rmtree(T, ignore_errors=True)
    json.dump(meta, open(os.path.join(d, "meta.json"), "w"), indent=1)
    print(sid, {k: (v["quick_exit"], v["violation_signatures"]) for k, v in meta["checks"].items()})
