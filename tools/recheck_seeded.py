#!/usr/bin/env python3
"""recheck_seeded.py <id>... : re-runs the registered quick checks against /repo HEAD + seeded/<id>/patch.diff
and appends the outcome to meta.json under "rechecks" (history of how detection evolved)."""
import json, os, shutil, subprocess, sys, tempfile, time
V = os.path.dirname(os.path.dirname(os.path.abspath(__file__)))
for sid in sys.argv[1:]:
    d = os.path.join(V, "seeded", sid)
    meta = json.load(open(os.path.join(d, "meta.json")))
    T = tempfile.mkdtemp(prefix="verif-seed-")
    try:
        tree = os.path.join(T, "tree")
        subprocess.check_call(["rsync", "-a", "--exclude", ".git", "/repo/", tree + "/"])
        subprocess.check_call(["patch", "-p1", "-s", "-i", os.path.join(d, "patch.diff")], cwd=tree)
        for prop in meta["breaks"]:
            env = dict(os.environ, VERIF_REPO=tree)
            env.pop("VERIF_BUDGET_S", None)
            c = subprocess.run([os.path.join(V, "bin", "check"), prop, "--tier", "quick", "--no-evidence"], env=env, stdout=subprocess.PIPE, stderr=subprocess.PIPE)
            text = c.stdout.decode(errors="replace")
            sigs = sorted({l.strip().split(": ")[0] for l in text.splitlines() if l.startswith("  ") and "/" in l.split(": ")[0] and len(l.split(": ")[0]) < 90})
            replays = [l.split("replay=")[1].strip() for l in text.splitlines() if l.startswith("VIOLATION")]
            r = {"quick_exit": c.returncode, "violation_signatures": sigs, "summary": text.splitlines()[0] if text else ""}
            if replays:
                # every reported violation is replayed on both trees: it must fail on the changed tree and
                # PASS on the unchanged one (a replay that fails on the unchanged tree is a false alarm of
                # the machinery, not a detection)
                good, false_alarms = [], []
                for rf in replays:
                    rp = subprocess.run([os.path.join(V, "bin", "check"), prop, "--replay", rf], env=env, stdout=subprocess.PIPE, stderr=subprocess.PIPE)
                    rp0 = subprocess.run([os.path.join(V, "bin", "check"), prop, "--replay", rf], env=dict(os.environ), stdout=subprocess.PIPE, stderr=subprocess.PIPE)
                    if rp0.returncode != 0:
                        false_alarms.append(os.path.basename(rf))
                        shutil.copy(rf, "/tmp/false-alarm-" + os.path.basename(rf))
                        print("FALSE-ALARM? replay %s fails on the UNCHANGED tree (exit %d); kept as /tmp/false-alarm-%s" % (rf, rp0.returncode, os.path.basename(rf)))
                    elif rp.returncode == 1:
                        good.append(rf)
                r["replays"] = len(replays)
                r["replays_reproducing_on_changed_tree_and_passing_on_unchanged"] = len(good)
                r["replays_failing_on_unchanged_tree"] = false_alarms
                first = good[0] if good else replays[0]
                r["replay_on_changed_tree_exit"] = 1 if good else 0
                r["replay_on_unchanged_tree_exit"] = 0 if good else (1 if false_alarms else 0)
                shutil.copy(first, os.path.join(d, "replay-%s.json" % prop))
                for x in replays:
                    if os.path.exists(x):
                        os.remove(x)
                if not good:
                    r["quick_exit_counts_as_detection"] = False
            commit = subprocess.check_output(["git", "-C", V, "rev-parse", "--short", "HEAD"]).decode().strip()
            meta.setdefault("rechecks", []).append({"verif_commit_before_this_run": commit, "property": prop, "previous": meta["checks"].get(prop), "now": r})
            meta["checks"][prop] = r
            meta["ran"].append("recheck: VERIF_REPO=<HEAD+patch> bin/check %s --tier quick -> exit %d %s" % (prop, c.returncode, ",".join(sigs)))
        meta["detected"] = any(v["quick_exit"] == 1 and v.get("quick_exit_counts_as_detection", True) for v in meta["checks"].values())
    finally:
        shutil.rmtree(T, ignore_errors=True)
    json.dump(meta, open(os.path.join(d, "meta.json"), "w"), indent=1)
    print(sid, {k: (v["quick_exit"], v["violation_signatures"], "good-replays=%s false-alarms=%s" % (v.get("replays_reproducing_on_changed_tree_and_passing_on_unchanged"), v.get("replays_failing_on_unchanged_tree"))) for k, v in meta["checks"].items()}, "DETECTED" if meta["detected"] else "MISSED")
