// Command instrument rewrites a scratch copy of the numscript module for the
// C11 engine:
//
//   - a call hook.Yield("<pkg>.<func>") is inserted at the entry of every
//     function and method (and function literal) of the target packages, so the
//     cooperative scheduler owns every point at which another Run call may be
//     interleaved;
//   - every `range` over a map with string keys, and every call of
//     golang.org/x/exp/maps.Keys on such a map, is routed through the
//     map-order seam (hook.RangeStr / hook.KeysStr), so the iteration order is
//     a permutation drawn from the case, not the runtime's.
//
// Nothing in /repo is touched: the tool works on the copy given by -dir.
package main

import (
	"bytes"
	"flag"
	"fmt"
	"go/ast"
	"go/format"
	goparser "go/parser"
	"go/token"
	"go/types"
	"os"
	"path/filepath"
	"strconv"
	"strings"

	"golang.org/x/tools/go/ast/astutil"
	"golang.org/x/tools/go/packages"
)

const hookPath = "github.com/formancehq/numscript/internal/verifsim/hook"

func main() {
	dir := flag.String("dir", ".", "root of the scratch copy of the module")
	stmtLevel := flag.Bool("stmt", false, "also insert a yield point before every statement (finer interleavings)")
	flag.Parse()
	targets := []string{".", "./internal/interpreter"}
	cfg := &packages.Config{
		Mode: packages.NeedName | packages.NeedFiles | packages.NeedSyntax | packages.NeedTypes | packages.NeedTypesInfo | packages.NeedImports | packages.NeedDeps | packages.NeedCompiledGoFiles,
		Dir:  *dir,
		Env:  append(os.Environ(), "GOFLAGS=-mod=mod -modfile=go.sim.mod", "GOPROXY=off", "GOSUMDB=off", "GOTOOLCHAIN=local"),
		BuildFlags: []string{"-tags=verif"},
	}
	pkgs, err := packages.Load(cfg, targets...)
	if err != nil {
		fmt.Fprintln(os.Stderr, "load:", err)
		os.Exit(1)
	}
	nerr := 0
	packages.Visit(pkgs, nil, func(p *packages.Package) {
		for _, e := range p.Errors {
			fmt.Fprintln(os.Stderr, "type error:", e)
			nerr++
		}
	})
	if nerr > 0 {
		os.Exit(1)
	}
	yields, ranges, keys, skipped, stmtYields := 0, 0, 0, 0, 0
	for _, p := range pkgs {
		for i, f := range p.Syntax {
			name := p.CompiledGoFiles[i]
			if strings.HasSuffix(name, "_test.go") || strings.Contains(name, "/verifsim/") {
				continue
			}
			changed := false
			short := p.Name
			// map-order seam
			astutil.Apply(f, func(c *astutil.Cursor) bool {
				switch n := c.Node().(type) {
				case *ast.RangeStmt:
					t := p.TypesInfo.TypeOf(n.X)
					if t == nil {
						return true
					}
					if m, ok := t.Underlying().(*types.Map); ok {
						if b, ok := m.Key().Underlying().(*types.Basic); ok && b.Kind() == types.String {
							n.X = &ast.CallExpr{Fun: &ast.SelectorExpr{X: ast.NewIdent("verifhook"), Sel: ast.NewIdent("RangeStr")}, Args: []ast.Expr{n.X}}
							ranges++
							changed = true
						} else {
							skipped++
						}
					}
				case *ast.CallExpr:
					if sel, ok := n.Fun.(*ast.SelectorExpr); ok && sel.Sel.Name == "Keys" {
						if obj, ok := p.TypesInfo.Uses[sel.Sel].(*types.Func); ok && obj.Pkg() != nil && obj.Pkg().Path() == "golang.org/x/exp/maps" && len(n.Args) == 1 {
							t := p.TypesInfo.TypeOf(n.Args[0])
							if m, ok := t.Underlying().(*types.Map); ok {
								if b, ok := m.Key().Underlying().(*types.Basic); ok && b.Kind() == types.String {
									n.Fun = &ast.SelectorExpr{X: ast.NewIdent("verifhook"), Sel: ast.NewIdent("KeysStr")}
									keys++
									changed = true
								}
							}
						}
					}
				}
				return true
			}, nil)
			// yield points
			ast.Inspect(f, func(n ast.Node) bool {
				switch fn := n.(type) {
				case *ast.FuncDecl:
					if fn.Body == nil {
						return true
					}
					site := short + "." + fn.Name.Name
					if fn.Recv != nil && len(fn.Recv.List) == 1 {
						site = short + "." + recvName(fn.Recv.List[0].Type) + "." + fn.Name.Name
					}
					fn.Body.List = append([]ast.Stmt{yieldStmt(site)}, fn.Body.List...)
					yields++
					changed = true
				case *ast.FuncLit:
					pos := p.Fset.Position(fn.Pos())
					site := fmt.Sprintf("%s.func@%s:%d", short, filepath.Base(pos.Filename), pos.Line)
					fn.Body.List = append([]ast.Stmt{yieldStmt(site)}, fn.Body.List...)
					yields++
					changed = true
				}
				return true
			})
			if !changed && !*stmtLevel {
				continue
			}
			astutil.AddNamedImport(p.Fset, f, "verifhook", hookPath)
			// imports that became unused (maps.Keys was the only use of x/exp/maps)
			for _, imp := range f.Imports {
				path, _ := strconv.Unquote(imp.Path.Value)
				if path == "golang.org/x/exp/maps" && !astutil.UsesImport(f, path) {
					astutil.DeleteImport(p.Fset, f, path)
				}
			}
			var buf bytes.Buffer
			if err := format.Node(&buf, p.Fset, f); err != nil {
				fmt.Fprintln(os.Stderr, "format:", name, err)
				os.Exit(1)
			}
			out := buf.Bytes()
			if *stmtLevel {
				var n int
				out, n = spliceStatementYields(name, out, short)
				stmtYields += n
			}
			if err := os.WriteFile(name, out, 0o644); err != nil {
				fmt.Fprintln(os.Stderr, "write:", err)
				os.Exit(1)
			}
		}
	}
	// the instrumented copy ranges over functions: needs language version 1.23
	modfile := filepath.Join(*dir, "go.sim.mod")
	b, err := os.ReadFile(modfile)
	if err == nil {
		lines := strings.Split(string(b), "\n")
		for i, l := range lines {
			if strings.HasPrefix(l, "go ") {
				lines[i] = "go 1.23"
			}
		}
		os.WriteFile(modfile, []byte(strings.Join(lines, "\n")), 0o644)
	}
	fmt.Printf("instrumented: %d function-entry yield points, %d statement-level yield points, %d map ranges, %d maps.Keys calls, %d map ranges over non-string keys left as is\n", yields, stmtYields, ranges, keys, skipped)
	_ = token.NoPos
}

func recvName(e ast.Expr) string {
	switch t := e.(type) {
	case *ast.StarExpr:
		return recvName(t.X)
	case *ast.Ident:
		return t.Name
	case *ast.IndexExpr:
		return recvName(t.X)
	case *ast.IndexListExpr:
		return recvName(t.X)
	}
	return "?"
}

func yieldStmt(site string) ast.Stmt {
	return &ast.ExprStmt{X: &ast.CallExpr{
		Fun:  &ast.SelectorExpr{X: ast.NewIdent("verifhook"), Sel: ast.NewIdent("Yield")},
		Args: []ast.Expr{&ast.BasicLit{Kind: token.STRING, Value: strconv.Quote(site)}},
	}}
}

// spliceStatementYields re-parses the already instrumented file and splices
// `verifhook.Yield("...");` textually in front of every statement of every
// function body (blocks, case and comm clauses) except the first of a list
// (the function-entry yield is already there) and declarations. Working on
// the text keeps the printer out of it.
func spliceStatementYields(name string, src []byte, short string) ([]byte, int) {
	fset := token.NewFileSet()
	f, err := goparser.ParseFile(fset, name, src, goparser.ParseComments)
	if err != nil {
		fmt.Fprintln(os.Stderr, "reparse:", name, err)
		os.Exit(1)
	}
	isYield := func(s ast.Stmt) bool {
		es, ok := s.(*ast.ExprStmt)
		if !ok {
			return false
		}
		call, ok := es.X.(*ast.CallExpr)
		if !ok {
			return false
		}
		sel, ok := call.Fun.(*ast.SelectorExpr)
		if !ok {
			return false
		}
		id, ok := sel.X.(*ast.Ident)
		return ok && id.Name == "verifhook" && sel.Sel.Name == "Yield"
	}
	type ins struct {
		off  int
		text string
	}
	var all []ins
	collect := func(list []ast.Stmt) {
		for i, st := range list {
			if i == 0 || isYield(st) || isYield(list[i-1]) {
				continue
			}
			switch st.(type) {
			case *ast.DeclStmt, *ast.EmptyStmt, *ast.CaseClause, *ast.CommClause:
				continue
			}
			pos := fset.Position(st.Pos())
			all = append(all, ins{pos.Offset, fmt.Sprintf("verifhook.Yield(%q); ", fmt.Sprintf("%s.stmt@%s:%d", short, filepath.Base(pos.Filename), pos.Line))})
		}
	}
	inFunc := 0
	ast.Inspect(f, func(node ast.Node) bool {
		switch b := node.(type) {
		case *ast.FuncDecl:
			_ = b
			inFunc++
		case *ast.BlockStmt:
			collect(b.List)
		case *ast.CaseClause:
			collect(b.Body)
		case *ast.CommClause:
			collect(b.Body)
		}
		return true
	})
	if len(all) == 0 {
		return src, 0
	}
	// splice from the end so that offsets stay valid
	for i := 0; i < len(all); i++ {
		for j := i + 1; j < len(all); j++ {
			if all[j].off > all[i].off {
				all[i], all[j] = all[j], all[i]
			}
		}
	}
	out := append([]byte{}, src...)
	for _, in := range all {
		out = append(out[:in.off], append([]byte(in.text), out[in.off:]...)...)
	}
	if !bytes.Contains(out, []byte("verifsim/hook")) {
		// a file whose functions got no entry yield cannot have statement yields either
		return src, 0
	}
	return out, len(all)
}
