#!/usr/bin/env python3
"""Regenerates the 'which checks catch which changes' block of DESIGN.md."""
import glob, json, os, re
V = os.path.dirname(os.path.dirname(os.path.abspath(__file__)))
lines = ["", "Hand-written catalogue (`mutants/*.patch`, run by `bin/selftest mutants`, quick budget; every VIOLATION was replayed from its minimised file on the changed tree, and the same file passes on the unchanged tree):", "",
         "| change | property | existing tests | check result | oracle(s) that fired |", "|---|---|---|---|---|"]
res = {}
p = os.path.join(V, "mutants", "RESULTS.txt")
if os.path.exists(p):
    for l in open(p):
        f = l.split()
        if len(f) >= 4:
            res[(f[0], f[1])] = l
for f in sorted(glob.glob(os.path.join(V, "mutants", "*.patch"))):
    name = os.path.basename(f)[:-6]
    meta = {}
    for l in open(f):
        if not l.startswith("# "):
            break
        k, _, v = l[2:].partition(":")
        meta[k.strip()] = v.strip()
    for prop in [x.strip() for x in meta.get("property", "").split(",")]:
        r = res.get((name, prop))
        if r:
            parts = r.split()
            status = parts[3]
            sigs = parts[4] if len(parts) > 4 and "/" in parts[4] else ""
            sigs = ", ".join(sorted({x for x in sigs.split(",") if re.match(r"^[a-z-]+/[a-z@A-Z.\-]+$", x)}))
            ok = parts[-1]
        else:
            status, sigs, ok = "(not run yet)", "", ""
        exp = meta.get("expect", "VIOLATION")
        lines.append("| `%s` — %s | %s | %s | %s%s | %s |" % (name, meta.get("what", ""), prop, meta.get("tests", "").split(" ")[0], status, "" if ok == "OK" else " **(expected %s)**" % exp, sigs))
lines += ["", "Independently written changes (`seeded/<id>/`; each by a fresh sub-agent that saw only the property text and its own scratch worktree; kept only after the build, the unedited test suite (twice), and both directions of its demonstration were confirmed here):", "",
          "| id | property | what it needs to manifest | quick check | oracle(s) that fired | replay on changed / unchanged tree |", "|---|---|---|---|---|---|"]
for f in sorted(glob.glob(os.path.join(V, "seeded", "*", "meta.json"))):
    m = json.load(open(f))
    for prop, c in m.get("checks", {}).items():
        lines.append("| `%s` | %s | %s | %s | %s | %s / %s |" % (m["id"], prop, m.get("summary", m.get("needs_to_manifest", "")), {0: "green **(missed)**", 1: "VIOLATION", 2: "harness error"}.get(c["quick_exit"]), ", ".join(c.get("violation_signatures", [])),
                     {1: "reproduces", 0: "does not reproduce", 2: "harness error", None: "-"}.get(c.get("replay_on_changed_tree_exit")), {0: "passes", 1: "FAILS", 2: "harness error", None: "-"}.get(c.get("replay_on_unchanged_tree_exit"))))
lines.append("")
p = os.path.join(V, "DESIGN.md")
s = open(p).read()
a, b = s.index("<!-- CATCHES:BEGIN"), s.index("<!-- CATCHES:END -->")
a = s.index("-->", a) + 3
s = s[:a] + "\n" + "\n".join(lines) + s[b:]
open(p, "w").write(s)
print("updated", len(lines), "lines")
